"""C04 - point lookup returns exactly the lowest-indexed intersecting cell."""
import warnings

import shapely
from shapely.geometry import Point

import emsarray  # noqa: F401
from coqio import Some, coq_eval_sharded
import gen
import polymodel as pm
from hutil import attempt
from props.c01 import FLAVOUR, all_kind_enums, canon_native


def polys_literal(polys):
    return pm.coq_list(['None' if p is None else f'(Some {pm.ring_literal(p)})' for p in polys])


def candidate_points(rng, polys, n_max):
    """cell interiors (diagonal midpoints), edge midpoints, vertices (shared by up to 8 cells), just outside the
    hull, far away; all taken from the polygon coordinates so boundary cases are exact"""
    pts = []
    rings = [p for p in polys if p is not None]
    for r in rings:
        k = len(r)
        pts.append(('vertex', r[rng.randrange(k)]))
        a, b = r[0], r[k // 2]
        pts.append(('diagonal_mid', ((a[0] + b[0]) / 2, (a[1] + b[1]) / 2)))
        i = rng.randrange(k)
        a, b = r[i], r[(i + 1) % k]
        pts.append(('edge_mid', ((a[0] + b[0]) / 2, (a[1] + b[1]) / 2)))
        v = r[rng.randrange(k)]
        pts.append(('near', (v[0] + rng.choice([-0.125, 0.125]), v[1] + rng.choice([-0.125, 0, 0.125]))))
    if rings:
        xs = [x for r in rings for x, y in r]
        ys = [y for r in rings for x, y in r]
        pts.append(('far', (max(xs) + 100.0, max(ys) + 50.0)))
        pts.append(('bbox_corner', (min(xs), min(ys))))
        pts.append(('bbox_corner', (max(xs), max(ys))))
        pts.append(('bbox_edge', ((min(xs) + max(xs)) / 2, max(ys))))
        pts.append(('just_outside', (min(xs) - 0.125, min(ys))))
        # the same place one whole turn east / west (a regional model does not contain it), and mirrored through the origin
        r = rng.choice(rings)
        a, b = r[0], r[len(r) // 2]
        mid = ((a[0] + b[0]) / 2, (a[1] + b[1]) / 2)
        pts.append(('one_turn_away', (mid[0] + 360.0, mid[1])))
        pts.append(('one_turn_away', (mid[0] - 360.0, mid[1])))
        pts.append(('mirrored', (-mid[0] + (0.0 if abs(mid[0]) > max(xs) - min(xs) + 1 else 777.0), -mid[1])))
    rng.shuffle(pts)
    # keep every class represented
    out, seen = [], {}
    for kind, p in pts:
        if seen.get(kind, 0) < max(2, n_max // 6):
            out.append((kind, p))
            seen[kind] = seen.get(kind, 0) + 1
    return out[:n_max]


def run(ctx):
    rng = ctx.rng
    quick = ctx.tier == 'quick'
    ctx.rule = ('generated datasets of every convention (holes, skewed, concave and self-intersecting cells) x points at '
                'cell vertices, edge midpoints, diagonal midpoints, 1/8 beside a vertex, bounding-box corners and edges, '
                'just outside and far away; the model is given the polygons the implementation built (C06 checks those). '
                'A case is one (dataset, point); non-trivial = at least one cell meets the point or the point lies in '
                'the bounding box; distinct by (dataset label, point)')
    n_ds = 24 if quick else 240
    n_pts = 40 if quick else 120
    fixed = [('cf1d', dict(ny=5, nx=6)), ('cf2d', dict(ny=4, nx=4, holes='interior', bounds=True)),
             ('shoc_standard', dict(nj=4, ni=5, holes='random')), ('ugrid', dict(w=4, h=3)), ('cf1d', dict(ny=10, nx=20)),
             # single-cell datasets
             ('cf1d', dict(ny=1, nx=1, bounds=True)), ('cf2d', dict(ny=1, nx=1, bounds=True, holes='none', invalid=False)),
             ('shoc_standard', dict(nj=1, ni=1, holes='none', invalid=False)), ('ugrid', dict(w=1, h=1, invalid=False)),
             ('shoc_standard', dict(nj=3, ni=4, holes='corner', invalid=False, plain=True)),
             ('cf1d', dict(ny=3, nx=4, mixed_dtypes='lon_int')), ('cf1d', dict(ny=4, nx=3, bounds=True, bounds_on='lat')), ('cf1d', dict(ny=3, nx=5, bounds=True, bounds_on='lon')),
             # cells without coordinates AND a self-intersecting cell in one dataset
             ('cf2d', dict(ny=3, nx=4, holes='edge', bounds=True, invalid=True)),
             ('cf2d', dict(ny=4, nx=3, holes='corner', bounds=True, invalid=True)),
             ('shoc_standard', dict(nj=3, ni=4, holes='edge', invalid=True)),
             # corners derived from the centres (no bounds stored) around one-cell-wide channels: those cells have no geometry
             ('cf2d', dict(ny=5, nx=4, holes='river', bounds=False, invalid=False)),
             ('cf2d', dict(ny=4, nx=5, holes='river_i', bounds=False, invalid=False)),
             ('shoc_simple', dict(ny=4, nx=4, holes='river', bounds=False, invalid=False))]
    datasets = [gen.any_dataset(rng, f, **kw) for f, kw in fixed]
    # meshes whose face-node table is stored nodes-first AND happens to be square (four quadrilaterals; three triangles)
    datasets.append(gen.ugrid(rng, mesh=gen.lattice_mesh(rng, 2, 2, variety=False, drop=False), transposed=True, invalid=False, supplied=set()))
    datasets.append(gen.ugrid(rng, mesh=([(0, 0), (8, 0), (16, 0), (0, 8), (8, 8)], [[0, 1, 3], [1, 4, 3], [1, 2, 4]]), transposed=True,
                              invalid=False, supplied=set()))
    while len(datasets) < n_ds:
        datasets.append(gen.any_dataset(rng))
    # which cells have a polygon at all is decided from the dataset's coordinates by the polygon model (C06); a lookup that
    # runs on another set of cells returns the wrong cell for points of the cells that differ
    raws = coq_eval_sharded(['Model.Polygons'], [f'(option_map (fun r => show_polys (finalize r)) {pm.raw_expr(d)})' for d in datasets],
                            shard=8)
    ctx.leg('coq_eval_polygons', len(datasets))
    for d, mres in zip(datasets, raws):
        if mres is None:
            continue
        m_polys = pm.model_polygons_to_float(mres.v)
        with warnings.catch_warnings():
            warnings.simplefilter('ignore')
            ri = attempt(pm.impl_polygons, d.ds.ems)
        if ri[0] != 'ok':
            ctx.report('property', f'the cells the lookup works on cannot be had: {ri[1]}', {'dataset': d.spec['label']})
            continue
        i_polys = ri[1]
        for n, (ip, mp) in enumerate(zip(i_polys, m_polys)):
            if ip is not None and mp is not None and ip != mp:
                # the cell the lookup works on is not the cell the coordinates describe: look a point up where the two differ
                try:
                    dif = shapely.Polygon(mp).symmetric_difference(shapely.Polygon(ip))
                except Exception:     # noqa: BLE001
                    continue
                if dif.area <= 1e-12:
                    continue
                c = dif.representative_point()
                hits = [k for k, q in enumerate(m_polys) if q is not None and shapely.Polygon(q).intersects(c)]
                with warnings.catch_warnings():
                    warnings.simplefilter('ignore')
                    r = attempt(d.ds.ems.get_index_for_point, c)
                got = None if r[0] != 'ok' or r[1] is None else int(r[1].linear_index)
                ctx.count('cell_polygon_differs_from_coordinates')
                if got != (hits[0] if hits else None):
                    ctx.report('property', f'point {(c.x, c.y)}: cell {got} returned; by the coordinates of the dataset the lowest cell '
                               f'meeting the point is {hits[0] if hits else None} (cell {n} is {mp}, the lookup uses {ip})',
                               {'dataset': d.spec['label'], 'point': [c.x, c.y], 'cell': n})
                    break
                continue
            if (ip is None) == (mp is None):
                continue
            ring = mp if mp is not None else ip
            c = shapely.Polygon(ring).representative_point() if shapely.Polygon(ring).is_valid else Point(*ring[0])
            lower = [k for k, q in enumerate(m_polys[:n]) if q is not None and shapely.Polygon(q).intersects(c)]
            want = None if mp is None and not lower else (lower[0] if lower else n)
            with warnings.catch_warnings():
                warnings.simplefilter('ignore')
                r = attempt(d.ds.ems.get_index_for_point, c)
            got = None if r[0] != 'ok' or r[1] is None else int(r[1].linear_index)
            later = [k for k, q in enumerate(m_polys) if k > n and q is not None and shapely.Polygon(q).intersects(c)]
            if mp is None and not lower and later:
                want = later[0]
            ctx.count('geometry_presence_differs')
            if got != want:
                ctx.report('property', f'point {(c.x, c.y)}: cell {got} returned; by the coordinates cell {n} '
                           f'{"has no valid polygon" if mp is None else "is a valid cell"} and the lowest cell meeting the point is {want}',
                           {'dataset': d.spec['label'], 'point': [c.x, c.y], 'cell': n})
                break
    # two meshes alive at the same time with the same outline, the same number of cells and different interior nodes:
    # each is looked up on its own cells (nothing keyed on size / extent may be shared between them)
    for rep in range(2 if quick else 6):
        w, h = rng.choice([(3, 3), (4, 3), (3, 4)])
        nodes1, faces1 = gen.lattice_mesh(rng, w, h, jitter=True, variety=False, drop=False)
        xs1 = [x for x, y in nodes1]
        ys1 = [y for x, y in nodes1]
        nodes2 = [(x, y) if x in (min(xs1), max(xs1)) or y in (min(ys1), max(ys1)) else (x + rng.choice([-2, 1, 2]), y + rng.choice([-2, -1, 2]))
                  for x, y in nodes1]
        twins = [gen.ugrid(rng, mesh=(nds, faces1), invalid=False, supplied=set(), face_coords=False, start_index=0, fill='nan',
                           transposed=False) for nds in (nodes1, nodes2)]
        tp = []
        for t in twins:
            with warnings.catch_warnings():
                warnings.simplefilter('ignore')
                tp.append([None if p is None else shapely.Polygon(p) for p in pm.impl_polygons(t.ds.ems)])
        for which, (t, shp_t) in enumerate(zip(twins, tp)):
            probe = [p.representative_point() for p in shp_t if p is not None] + [Point(x / 8.0, y / 8.0) for x, y in (nodes1, nodes2)[which]]
            for c in probe:
                with warnings.catch_warnings():
                    warnings.simplefilter('ignore')
                    r = attempt(t.ds.ems.get_index_for_point, c)
                got = None if r[0] != 'ok' or r[1] is None else int(r[1].linear_index)
                brute = [n for n, p in enumerate(shp_t) if p is not None and p.intersects(c)]
                ctx.case(('twin', rep, which, c.x, c.y), True)
                ctx.count('twin_meshes:lookup')
                if got != (brute[0] if brute else None):
                    ctx.report('property', f'cell {got} returned for point {(c.x, c.y)} of the {"second" if which else "first"} of two meshes '
                               f'with the same outline and size; in that mesh the lowest cell meeting the point is {brute[0] if brute else None}',
                               {'dataset': t.spec['label'], 'point': [c.x, c.y], 'twin': which})
                    break
    # a subset made with select_variables, whose coordinates are then corrected in place on that same object (0..360 to
    # -180..180, say) before it is first used: lookups answer for the subset as it now is
    for fam, kw in [('cf1d', dict(ny=3, nx=4)), ('cf2d', dict(ny=3, nx=3, invalid=False, holes='none')), ('ugrid', dict(w=3, h=2, invalid=False))]:
        dsub = gen.any_dataset(rng, fam, **kw)
        gen.add_data_vars(rng, dsub.ds, dsub.spec['kinds'], n_extra_max=1)
        parent = dsub.ds
        with warnings.catch_warnings():
            warnings.simplefilter('ignore')
            p_polys = pm.impl_polygons(parent.ems)
            parent.ems.strtree
            keep = [str(v) for v in parent.data_vars if str(v) not in {str(x) for x in parent.ems.get_all_geometry_names()}][:1]
            r = attempt(lambda: parent.ems.select_variables(keep))
        if r[0] != 'ok':
            continue
        sub = r[1]
        lon_names = [n for n, v in sub.variables.items() if v.dtype.kind == 'f' and (
            v.attrs.get('units') == 'degrees_east' or v.attrs.get('standard_name') == 'longitude' or v.attrs.get('axis') == 'X')]
        lon_names += [sub[n].attrs['bounds'] for n in lon_names if sub[n].attrs.get('bounds') in sub.variables]
        for nme in lon_names:
            v = sub[nme]
            if nme in sub.coords:
                sub.coords[nme] = (v.dims, v.values + 40.0, v.attrs)
            else:
                sub[nme] = (v.dims, v.values + 40.0, v.attrs)
        case = {'dataset': dsub.spec['label'], 'what': 'select_variables, longitudes shifted by 40 in place on the subset, then lookups'}
        ctx.count('subset_edited_in_place')
        for n, p in enumerate(p_polys):
            if p is None:
                continue
            c0 = shapely.Polygon(p).representative_point()
            c1 = Point(c0.x + 40.0, c0.y)
            with warnings.catch_warnings():
                warnings.simplefilter('ignore')
                r1 = attempt(sub.ems.get_index_for_point, c1)
                r0 = attempt(sub.ems.get_index_for_point, c0)
            g1 = None if r1[0] != 'ok' or r1[1] is None else int(r1[1].linear_index)
            g0 = None if r0[0] != 'ok' or r0[1] is None else int(r0[1].linear_index)
            brute1 = [k for k, q in enumerate(p_polys) if q is not None and shapely.Polygon([(x + 40.0, y) for x, y in q]).intersects(c1)]
            ctx.case((dsub.spec['label'], 'subset', n), True)
            if g1 != (brute1[0] if brute1 else None) or g0 is not None:
                ctx.report('property', f'after the edit the subset has cell {brute1[0] if brute1 else None} at {(c1.x, c1.y)} and nothing at '
                           f'{(c0.x, c0.y)}; the lookups returned {g1} and {g0}', case)
                break
    exprs, plans = [], []
    for d in datasets:
        # a variable holding each cell's own linear index: what select_point returns says which cell was selected
        fd = list(d.spec['kinds']['face'])
        fshape = [d.ds.sizes[x] for x in fd]
        size = 1
        for x in fshape:
            size *= x
        import numpy as _np
        import xarray as _xr
        if len(plans) % 3 == 1 and 'plain ArakawaC' not in d.spec['label']:
            # surface dimensions carrying index coordinates with unsorted labels (row / station numbers): a cell is found by
            # position, whatever the labels say
            d.ds = gen.label_dimensions(rng, d.ds, fd)
            ctx.count('surface dimensions with unsorted labels')
        d.ds['cell_tag'] = _xr.DataArray(_np.arange(size, dtype='i8').reshape(fshape), dims=fd)
        ems = d.ds.ems
        polys = pm.impl_polygons(ems)
        pts = candidate_points(rng, polys, n_pts)
        # sequences matter for caches: also look the same points up again in another order later
        lit = polys_literal(polys)
        ptlit = pm.coq_list([f'({pm.coq_q(x)}, {pm.coq_q(y)})' for _, (x, y) in pts])
        exprs.append(f'(let ps := {lit} in map (fun p => (lookup_point ps p, hits_point ps p)) {ptlit})')
        plans.append((d, ems, polys, pts))
        ctx.count(f'family:{d.family}')
    model = coq_eval_sharded(['Model.Lookup'], exprs, shard=6)
    ctx.leg('coq_eval_cases', len(exprs))
    for (d, ems, polys, pts), mres in zip(plans, model):
        flav = FLAVOUR[d.family]
        shp = [None if p is None else shapely.Polygon(p) for p in polys]
        order = list(range(len(pts)))
        # first pass in generated order, second pass reversed (history independence)
        for pass_no, idxs in enumerate([order, order[::-1]]):
            for k in idxs:
                kind, (x, y) = pts[k]
                m_first, m_hits = mres[k]
                pt = Point(x, y)
                case = {'dataset': d.spec['label'], 'point': [x, y], 'point_class': kind, 'pass': pass_no}
                brute = [n for n, p in enumerate(shp) if p is not None and p.intersects(pt)]
                if pass_no == 0:
                    ctx.case((d.spec['label'], x, y), bool(brute) or kind.startswith('bbox'),
                             sample={'dataset': d.spec['label'], 'point': [x, y], 'class': kind, 'hits': brute})
                    ctx.count(f'points:{kind}')
                    ctx.count(f'ties:{min(len(brute), 5)}')
                r = attempt(ems.get_index_for_point, pt)
                bad = None
                if r[0] != 'ok':
                    bad = f'get_index_for_point raised {r[1]}'
                    impl = 'err'
                elif r[1] is None:
                    impl = None
                    if brute:
                        bad = f'no cell returned but cells {brute} contain or touch the point'
                else:
                    item = r[1]
                    impl = Some(int(item.linear_index))
                    if not brute:
                        bad = f'cell {item.linear_index} returned but no cell polygon meets the point'
                    elif int(item.linear_index) != brute[0]:
                        bad = f'cell {item.linear_index} returned, lowest intersecting cell is {brute[0]} (hits {brute})'
                    else:
                        lin = int(item.linear_index)
                        back = attempt(ems.ravel_index, item.index)
                        if back != ('ok', lin):
                            bad = f'native index {item.index} does not ravel to linear index {lin}'
                        elif polys[lin] is None or not item.polygon.equals(shp[lin]):
                            bad = f'returned polygon is not polygon {lin}'
                # select_point: the data of that same cell, or a refusal when no cell is there
                if not bad and pass_no == 0 and k % 3 == 0:
                    with warnings.catch_warnings():
                        warnings.simplefilter('ignore')
                        sp = attempt(ems.select_point, pt)
                    ctx.count('select_point')
                    if brute:
                        if sp[0] != 'ok':
                            bad = f'select_point failed ({sp[1]}) although cell {brute[0]} is there'
                        elif 'cell_tag' not in sp[1] or int(sp[1]['cell_tag'].values) != brute[0]:
                            bad = (f'select_point returned the data of cell '
                                   f'{int(sp[1]["cell_tag"].values) if "cell_tag" in sp[1] else "?"}, the lowest intersecting cell is {brute[0]}')
                    elif sp[0] == 'ok':
                        bad = 'select_point returned data for a point no cell meets'
                if bad:
                    ctx.report('property', bad, case)
                elif impl != m_first or sorted(brute) != m_hits:
                    ctx.report('correspondence', f'model Lookup and implementation differ: impl {impl} (GEOS hits {brute}) '
                               f'model {m_first} (hits {m_hits})', case, found_input=False)
