"""C15 - geometry export round-trips every cell with its indexes."""
import json
import os
import shutil
import tempfile
import warnings

import numpy
import shapefile
import shapely

import emsarray  # noqa: F401
from emsarray.operations import geometry as geometry_ops
from coqio import Some, coq_eval_sharded, to_coq
import gen
from hutil import attempt
from props.c01 import FCTOR, FLAVOUR, KCODE, canon_native, expected_shapes


def rescale(d, factor=1.0 / 3.0, offset=0.0):
    """give the coordinates more than six significant decimals (x 1/3): every geometry coordinate variable is scaled"""
    ds = d.ds
    if d.family == 'ugrid':
        names = ['Mesh2_node_x', 'Mesh2_node_y'] + [n for n in ('Mesh2_face_x', 'Mesh2_face_y') if n in ds.variables]
    elif d.family == 'shoc_standard':
        names = ['y_centre', 'x_centre', 'y_left', 'x_left', 'y_back', 'x_back', 'y_grid', 'x_grid']
    else:
        names = [d.spec['latname'], d.spec['lonname']]
        for n in list(names):
            b = ds[n].attrs.get('bounds')
            if b is not None and b in ds.variables:
                names.append(b)
    out = ds.copy()
    for n in names:
        a = ds[n]
        if n in ds.coords:
            out = out.assign_coords({n: (a.dims, a.values * factor + offset, a.attrs)})
        else:
            out[n] = (a.dims, a.values * factor + offset, a.attrs)
    return out


def ring(p):
    """the exterior ring up to the start vertex and the winding direction (formats prescribe their own ring orientation):
    the lexicographically smallest rotation of either direction - exact coordinates, repeated vertices kept"""
    pts = [tuple(c) for c in p.exterior.coords][:-1]
    best = None
    for seq in (pts, pts[::-1]):
        for k in range(len(seq)):
            rot = seq[k:] + seq[:k]
            if best is None or rot < best:
                best = rot
    return best


def run(ctx):
    rng = ctx.rng
    quick = ctx.tier == 'quick'
    ctx.rule = ('datasets of every convention (holes, invalid cells, multi-kind native indexes), a third of them with coordinates '
                'scaled by 1/3 so that they carry more than six significant decimals; exported as GeoJSON, Shapefile, WKT and WKB; '
                'each file is read back with an independent reader (json, pyshp, shapely) and compared with the model export list '
                '(cell positions, native indexes) and with the dataset polygons coordinate by coordinate (bit patterns, up to ring '
                'orientation). one case = (dataset, format); non-trivial = the dataset has a cell without geometry; distinct by '
                'dataset label, scaling and format')
    n_ds = 12 if quick else 100
    tmp = tempfile.mkdtemp(prefix='c15_', dir=os.environ.get('VERIF_WORK', '/verif/work'))
    exprs, plans = [], []
    try:
        for n in range(n_ds):
            if n == 0:
                # native indexes of different printed widths ('[9, 3]' / '[10, 11]') with cells missing before them
                d = gen.cf2d(rng, ny=11, nx=12, holes='random', invalid=False)
            elif n == 1:
                d = gen.arakawa(rng, nj=12, ni=11, holes='random', invalid=False)
            elif n in (4, 9):
                # meshes mixing vertex counts that average to a quadrilateral (3 + 5, 3 + 4 + 5): every ring is still that cell's own
                nodes_m, faces_m = [], []
                for m_, sides in enumerate([3, 5] if n == 4 else [5, 4, 3, 4]):
                    base_m = len(nodes_m)
                    ring_m = {3: [(0, 0), (6, 0), (0, 6)], 4: [(0, 0), (6, 0), (6, 6), (0, 6)], 5: [(0, 0), (6, 0), (8, 4), (3, 8), (-2, 4)]}[sides]
                    nodes_m += [(x + 16 * m_, y) for x, y in ring_m]
                    faces_m.append(list(range(base_m, base_m + sides)))
                d = gen.ugrid(rng, mesh=(nodes_m, faces_m), invalid=False, supplied=set())
            else:
                d = gen.any_dataset(rng, gen.FAMILIES[n % len(gen.FAMILIES)])
            scaled = rng.random() < 0.4
            ds = rescale(d) if scaled else d.ds
            if n % 5 == 4 and d.family in ('cf1d', 'ugrid'):
                # a model a few thousandths of a degree across, next to 0E 0N: coordinates between 1e-4 and 1e-3 need up to twenty
                # decimal places to be written exactly
                scaled = 'tiny'
                ds = rescale(d, 1.0 / (3.0 * 2 ** 16), 0.0001)
                ctx.count('coordinates between 1e-4 and 1e-3')
            # where on the globe the model sits: as generated (around 0E 0N), on a 0..360 longitude axis east of 180E,
            # astride 180E, west of 180W, far south
            where = ['as generated', 'east of 180E', 'astride 180E', 'west of 180W', 'far south', 'as generated'][n % 6]
            if where != 'as generated':
                ds = gen.shift_coordinates(ds, dlon={'east of 180E': 200.0, 'astride 180E': 178.0, 'west of 180W': -200.0}.get(where, 0.0),
                                           dlat=-70.0 if where == 'far south' else 0.0, max_lat=1e9)
            ctx.count(f'placed:{where}')
            with warnings.catch_warnings():
                warnings.simplefilter('ignore')
                polys = list(ds.ems.polygons)
            label = d.spec['label']
            holes = sum(1 for p in polys if p is None)
            flav = FLAVOUR[d.family]
            shapes = expected_shapes(d)
            g = f'{{| fl := {FCTOR[flav]}; shapes := {to_coq([(KCODE[flav][k], s) for k, s in shapes.items()])} |}}'
            mask_lit = '[' + '; '.join('None' if p is None else f'(Some {k})' for k, p in enumerate(polys)) + ']'
            exprs.append(f'(map (fun t : Z * option native * Z => (fst (fst t), snd (fst t))) (export_dataset {g} ({mask_lit} : list (option Z))))')
            results = {}
            ctx.count(f'family:{d.family}')
            ctx.count(f'scaled:{scaled}')
            ctx.count(f'holes:{"yes" if holes else "no"}')
            for fmt in ['geojson', 'shapefile', 'wkt', 'wkb']:
                case = {'dataset': label, 'format': fmt, 'scaled_by_third': scaled, 'cells': len(polys), 'without_geometry': holes,
                        'placed': where}
                ctx.case((label, scaled, fmt), holes > 0, sample=case if holes and len(ctx.samples) < 3 else None)
                # every other dataset is exported to a name with dots in its stem ('model.v2.0.shp'), next to an earlier export
                # whose name is a prefix of it
                stem_of = lambda m: f'e{m}' if m % 2 == 0 else f'e{m - 1}.v2.0'     # noqa: E731
                # every third dataset is exported over the files of the previous one (an export run again after the model changed):
                # the files then hold the new geometry only
                stem = stem_of(n - 1) if n % 3 == 2 else stem_of(n)
                if n % 3 == 2:
                    ctx.count('exported over an earlier export')
                path = os.path.join(tmp, f'{stem}.{ {"geojson": "geojson", "shapefile": "shp", "wkt": "wkt", "wkb": "wkb"}[fmt] }')
                with warnings.catch_warnings():
                    warnings.simplefilter('ignore')
                    import pathlib
                    if fmt == 'shapefile' and n % 3 == 1:
                        # the documented second calling form: one opened file (or path) per component
                        ctx.count('shapefile:components given one by one')
                        case['components'] = 'shp, shx, dbf, prj given as opened files'
                        base = path[:-4]
                        hs = {e: open(base + '.' + e, 'w' if e == 'prj' else 'wb') for e in ('shp', 'shx', 'dbf', 'prj')}
                        try:
                            r = attempt(geometry_ops.write_shapefile, ds, shp=hs['shp'], shx=hs['shx'], dbf=hs['dbf'], prj=hs['prj'])
                        finally:
                            for h in hs.values():
                                h.close()
                        if r[0] == 'ok' and not open(base + '.prj').read().strip():
                            r = ('err', 'nothing was written to the opened prj file')
                    elif fmt == 'shapefile' and n % 3 == 0:
                        # keyword arguments are handed on to the shapefile writer (documented): a writer told to keep records and
                        # shapes in step as it goes writes the same file
                        ctx.count('shapefile:writer options handed on (autoBalance)')
                        case['writer options'] = {'autoBalance': True}
                        r = attempt(geometry_ops.write_shapefile, ds, path, autoBalance=True)
                    else:
                        r = attempt(getattr(geometry_ops, f'write_{fmt}'), ds, pathlib.Path(path) if (n + len(fmt)) % 2 else path)
                if r[0] != 'ok':
                    ctx.report('property', f'write_{fmt} failed: {r[1]}', case)
                    continue
                # ---- independent readers: [(linear index or None, native index or None, ring)]
                feats = []
                try:
                    if fmt == 'geojson':
                        doc = json.load(open(path))
                        for f in doc['features']:
                            feats.append((f['properties'].get('linear_index'), f['properties'].get('index'),
                                          ring(shapely.geometry.shape(f['geometry']))))
                    elif fmt == 'shapefile':
                        with shapefile.Reader(path) as shp:
                            names = [f[0] for f in shp.fields[1:]]
                            for sr in shp.shapeRecords():
                                rec = dict(zip(names, list(sr.record)))
                                li = rec.get('linear_ind', rec.get('linear_index'))
                                idx = rec.get('index')
                                try:
                                    idx = json.loads(idx) if isinstance(idx, str) and idx else idx
                                except ValueError:
                                    idx = f'unreadable: {idx!r}'
                                feats.append((li, idx,
                                              ring(shapely.geometry.shape(sr.shape.__geo_interface__))))
                    elif fmt == 'wkt':
                        gm = shapely.from_wkt(open(path).read())
                        feats = [(None, None, ring(p)) for p in gm.geoms]
                    else:
                        gm = shapely.from_wkb(open(path, 'rb').read())
                        feats = [(None, None, ring(p)) for p in gm.geoms]
                except Exception as e:     # noqa: BLE001
                    ctx.report('property', f'the exported {fmt} file cannot be read back: {type(e).__name__}: {str(e)[:200]}', case)
                    continue
                # ---- the property, directly
                want_cells = [k for k, p in enumerate(polys) if p is not None]
                bad = None
                if len(feats) != len(want_cells):
                    bad = f'{len(feats)} features read back, the dataset has {len(want_cells)} cells with polygons'
                else:
                    for (li, idx, rg), k in zip(feats, want_cells):
                        if rg != ring(polys[k]):
                            bad = (f'feature for cell {k}: coordinates {rg[:3]}.. differ from the cell polygon '
                                   f'{ring(polys[k])[:3]}..')
                            break
                        if fmt in ('geojson', 'shapefile'):
                            if li != k:
                                bad = f'feature at position {want_cells.index(k)} records linear index {li!r}, the cell is {k}'
                                break
                            native = ds.ems.wind_index(k)
                            if json.loads(json.dumps(native)) != idx:
                                bad = f'feature for cell {k} records native index {idx!r}, the cell is {native!r}'
                                break
                            # the recorded native index identifies that same cell
                            if d.family in ('cf1d', 'cf2d', 'shoc_simple'):
                                back = tuple(idx)
                            else:
                                kinds = {x.value: x for x in type(native[0])}
                                back = (kinds[idx[0]], *idx[1:])
                            if ds.ems.ravel_index(back) != k:
                                bad = f'recorded native index {idx!r} does not identify cell {k}'
                                break
                if bad:
                    ctx.report('property', bad, case)
                    continue
                results[fmt] = [(li, idx) for li, idx, _ in feats]
            plans.append((label, scaled, flav, ds, polys, results))
        # ---- the command line tool on files whose missing coordinates are stored with a fill value (not NaN)
        from props.c20 import run_cli
        import xarray
        for n in range(3 if quick else 12):
            fam = rng.choice(['cf2d', 'shoc_simple', 'shoc_standard'])
            if n == 0:
                fam = 'cf2d'
            d = gen.any_dataset(rng, fam, holes=rng.choice(['corner', 'edge', 'random', 'interior']), invalid=False)
            src = os.path.join(tmp, f'cli_in_{n}.nc')
            enc = {}
            for v in d.ds.variables:
                a = d.ds[v]
                if a.dtype.kind == 'f':
                    enc[v] = {'_FillValue': 1e35 if numpy.isnan(a.values).any() else None}
            with warnings.catch_warnings():
                warnings.simplefilter('ignore')
                d.ds.to_netcdf(src, encoding=enc)
                ondisk = emsarray.open_dataset(src)
                ondisk.load()
            for fmt, ext in [('geojson', 'geojson'), ('wkt', 'wkt'), ('wkb', 'wkb'), ('shapefile', 'shp')]:
                out = os.path.join(tmp, f'cli_out_{n}.{ext}')
                lib = os.path.join(tmp, f'lib_out_{n}.{ext}')
                code, err = run_cli(['export-geometry', src, out])
                case = {'dataset': d.spec['label'], 'format': fmt, 'through': 'emsarray export-geometry',
                        'missing_coordinates_stored_as': '_FillValue 1e35'}
                ctx.case((d.spec['label'], 'cli', fmt), True)
                ctx.count(f'cli_export:{fmt}')
                with warnings.catch_warnings():
                    warnings.simplefilter('ignore')
                    lr = attempt(getattr(geometry_ops, f'write_{fmt}'), ondisk, lib)
                if code != 0 or lr[0] != 'ok':
                    if (code == 0) != (lr[0] == 'ok'):
                        ctx.report('property', f'export-geometry exit status {code}, library writer: {lr}', case)
                    continue
                exts = ['shp', 'shx', 'dbf'] if fmt == 'shapefile' else [ext]
                for e in exts:
                    a, b = out[:-len(ext)] + e, lib[:-len(ext)] + e
                    if open(a, 'rb').read() != open(b, 'rb').read():
                        ctx.report('property', f'the {fmt} file written by the command line tool differs from the geometry of '
                                   f'emsarray.open_dataset(input) written by the library', case)
                        break
            # ---- the same file exported whole and then in part (a subset keeps the file name it was read from in its encoding):
            # each export holds the polygons of the dataset it was given
            if fam in ('cf2d', 'shoc_simple'):
                ydim = d.spec['kinds']['face'][0]
                if ondisk.sizes[ydim] >= 2:
                    sub = ondisk.isel({ydim: slice(0, ondisk.sizes[ydim] - 1)})
                    with warnings.catch_warnings():
                        warnings.simplefilter('ignore')
                        sr = attempt(lambda: [p_ for p_ in sub.ems.polygons if p_ is not None])
                    if sr[0] == 'ok':
                        for fmt in ('wkt', 'wkb', 'geojson'):
                            spath = os.path.join(tmp, f'subset_{n}.{fmt}')
                            scase = {'dataset': d.spec['label'], 'format': fmt, 'exported': f'whole file, then its first {sub.sizes[ydim]} rows'}
                            ctx.case((d.spec['label'], 'subset after whole', fmt), True)
                            ctx.count('export:subset after the whole file')
                            with warnings.catch_warnings():
                                warnings.simplefilter('ignore')
                                w_ = attempt(getattr(geometry_ops, f'write_{fmt}'), sub, spath)
                            if w_[0] != 'ok':
                                ctx.report('property', f'write_{fmt} of a subset failed: {w_[1]}', scase)
                                continue
                            if fmt == 'geojson':
                                got_n = len(json.load(open(spath))['features'])
                            else:
                                gm_ = shapely.from_wkt(open(spath).read()) if fmt == 'wkt' else shapely.from_wkb(open(spath, 'rb').read())
                                got_n = len(gm_.geoms)
                            if got_n != len(sr[1]):
                                ctx.report('property', f'the {fmt} export of the subset holds {got_n} polygons, the subset has {len(sr[1])} '
                                           f'cells with polygons', scase)
            ondisk.close()
        # ---- a large model (more than 100 000 cells, three cells without geometry): every feature still records ITS cell
        ny_b, nx_b = 3, 33400
        # the first two rows (66800 cells) have no coordinates: only the cells at positions 66800..100199 have polygons
        lon2 = numpy.tile(numpy.arange(nx_b) * 0.001953125, (ny_b, 1))
        lat2 = numpy.repeat(numpy.arange(ny_b)[:, None] * 0.25, nx_b, axis=1)
        lonb = numpy.stack([lon2 - 0.0009765625, lon2 + 0.0009765625, lon2 + 0.0009765625, lon2 - 0.0009765625], axis=-1)
        latb = numpy.stack([lat2 - 0.125, lat2 - 0.125, lat2 + 0.125, lat2 + 0.125], axis=-1)
        lonb[:2] = numpy.nan
        latb[:2] = numpy.nan
        big = xarray.Dataset({'lon_bnds': (('y', 'x', 'nv'), lonb), 'lat_bnds': (('y', 'x', 'nv'), latb)},
                             coords={'lat2': (('y', 'x'), lat2, {'units': 'degrees_north', 'bounds': 'lat_bnds'}),
                                     'lon2': (('y', 'x'), lon2, {'units': 'degrees_east', 'bounds': 'lon_bnds'})})
        n_wet = nx_b
        for fmt in ['geojson', 'shapefile']:
            case = {'dataset': f'cf2d {ny_b}x{nx_b} (100200 cells, the first 66800 without coordinates)', 'format': fmt}
            ctx.case(('big', fmt), True)
            ctx.count(f'large_dataset:{fmt}')
            path = os.path.join(tmp, 'big.' + {'geojson': 'geojson', 'shapefile': 'shp'}[fmt])
            with warnings.catch_warnings():
                warnings.simplefilter('ignore')
                r = attempt(getattr(geometry_ops, f'write_{fmt}'), big, path)
            if r[0] != 'ok':
                ctx.report('property', f'write_{fmt} of a large dataset failed: {r[1]}', case)
                continue
            try:
                if fmt == 'geojson':
                    recs = [(f['properties'].get('linear_index'), f['properties'].get('index'), f['geometry']['coordinates'][0][0])
                            for f in json.load(open(path))['features']]
                else:
                    with shapefile.Reader(path) as shp:
                        fnames = [f[0] for f in shp.fields[1:]]
                        recs = []
                        for sr in shp.iterShapeRecords():
                            rec = dict(zip(fnames, list(sr.record)))
                            idx = rec.get('index')
                            recs.append((rec.get('linear_ind', rec.get('linear_index')), json.loads(idx) if isinstance(idx, str) else idx,
                                         list(sr.shape.points[0])))
            except Exception as e:     # noqa: BLE001
                ctx.report('property', f'the exported {fmt} file of a large dataset cannot be read back: {type(e).__name__}', case)
                continue
            badb = None
            if len(recs) != n_wet:
                badb = f'{len(recs)} features for {n_wet} cells with polygons'
            else:
                for pos in list(range(0, n_wet, 397)) + [99999 - 2 * nx_b, 100000 - 2 * nx_b, 100001 - 2 * nx_b, n_wet - 1]:
                    li, idx, first = recs[pos]
                    k = 2 * nx_b + pos
                    j, i = divmod(k, nx_b)
                    if li != k or list(idx) != [j, i]:
                        badb = f'feature {pos} records linear index {li} and native index {idx}; the cell there is {k} = {[j, i]}'
                        break
                    if not (lonb[j, i, 0] <= first[0] <= lonb[j, i, 1] and latb[j, i, 0] <= first[1] <= latb[j, i, 2]):
                        badb = f'feature {pos}: first coordinate {first} is not a corner of cell {[j, i]}'
                        break
            if badb:
                ctx.report('property', badb, case)
        model = coq_eval_sharded(['Model.IndexConv', 'Model.Export'], exprs, shard=8, workers=12)
        ctx.leg('export_lists', len(exprs))
        for (label, scaled, flav, ds, polys, results), mres in zip(plans, model):
            for fmt in ('geojson', 'shapefile'):
                if fmt not in results:
                    continue
                impl = []
                for li, idx in results[fmt]:
                    if flav == 'cf':
                        nat = (0, [int(x) for x in idx])
                    else:
                        nat = (KCODE[flav][idx[0]], [int(x) for x in idx[1:]])
                    impl.append((li, Some(nat)))
                if impl != mres:
                    ctx.report('correspondence', f'{fmt}: exported (linear index, native index) list {impl[:4]}.. differs from the '
                               f'model {mres[:4]}..', {'dataset': label, 'format': fmt}, found_input=False)
    finally:
        shutil.rmtree(tmp, ignore_errors=True)
