"""C01 - native <-> linear index bijection."""
import itertools

import emsarray  # noqa: F401
from coqio import Ctor, Some, coq_eval_sharded, to_coq
import gen

KCODE = {
    'cf': {'face': 0},
    'arakawa': {'face': 0, 'left': 1, 'back': 2, 'node': 3},
    'ugrid': {'face': 0, 'edge': 1, 'node': 2},
}
FLAVOUR = {'cf1d': 'cf', 'cf2d': 'cf', 'shoc_simple': 'cf', 'shoc_standard': 'arakawa', 'ugrid': 'ugrid'}
FCTOR = {'cf': 'FCF', 'arakawa': 'FArakawa', 'ugrid': 'FUGrid'}


def expected_shapes(d):
    s = d.spec
    if d.family in ('cf1d', 'cf2d', 'shoc_simple'):
        return {'face': [s['ny'], s['nx']]}
    if d.family == 'shoc_standard':
        nj, ni = s['nj'], s['ni']
        return {'face': [nj, ni], 'left': [nj, ni + 1], 'back': [nj + 1, ni], 'node': [nj + 1, ni + 1]}
    out = {'face': [s['nf']], 'node': [s['nn']]}
    if s['has_edge_dim']:
        out['edge'] = [s['ne']]
    return out




def all_kind_enums(ems):
    import emsarray.conventions.ugrid as U
    import emsarray.conventions.arakawa_c as A
    import emsarray.conventions.grid as G
    if isinstance(ems, U.UGrid):
        return {k.value: k for k in U.UGridKind}
    if isinstance(ems, A.ArakawaC):
        return {k.value: k for k in A.ArakawaCGridKind}
    return {k.value: k for k in G.CFGridKind}


def to_native(flav, enums, kname, idx):
    if flav == 'cf':
        return tuple(idx)
    return (enums[kname], *idx)


def canon_native(flav, val):
    """python native index -> (kindcode, [ints])"""
    if flav == 'cf':
        return (0, [int(x) for x in val])
    k = val[0]
    return (KCODE[flav][k.value], [int(x) for x in val[1:]])


def attempt(f, *a, **kw):
    try:
        return ('ok', f(*a, **kw))
    except (ValueError, IndexError, KeyError, TypeError, OverflowError) as e:
        return ('err', type(e).__name__)


def run(ctx):
    rng = ctx.rng
    quick = ctx.tier == 'quick'
    ctx.rule = ('datasets of every convention from the generators (shapes incl. 1xN, Nx1); per dataset and grid kind '
                'every linear index in [-m, size+m) and every native index in the box [-1, s_k]^rank; a case is one '
                '(dataset shape signature, kind); non-trivial = the kind exists and has size >= 2; distinct by '
                '(family, shapes, kind)')
    n_ds = 40 if quick else 400
    datasets = []
    # fixed corner shapes first
    for fam, kw in [('cf1d', dict(ny=2, nx=5)), ('cf1d', dict(ny=5, nx=2)), ('cf2d', dict(ny=1, nx=4)),
                    ('cf2d', dict(ny=4, nx=1)), ('shoc_simple', dict(ny=3, nx=3)), ('shoc_standard', dict(nj=1, ni=3)),
                    ('shoc_standard', dict(nj=3, ni=1)), ('ugrid', dict(w=1, h=1)), ('ugrid', dict(w=3, h=2)),
                    ('shoc_standard', dict(nj=3, ni=4, holes='corner', invalid=False, plain=True)),
                    # meshes whose edges are known in less usual ways: only through edge_face while the mesh attributes still name
                    # an edge_node variable that is not in the file; an edge_dimension attribute with nothing stored on edges
                    ('ugrid', dict(w=3, h=2, supplied={'edge_face'}, stale_attrs=('edge_node_connectivity',), edge_dim_declared=False,
                                   transposed=False, invalid=False)),
                    ('ugrid', dict(w=2, h=2, supplied=set(), edge_dim_declared=True, phantom_edge_dim=True, invalid=False)),
                    # ... and edges known only through a face_edge table (zero- and one-based) while nothing is stored on the edge dimension
                    ('ugrid', dict(w=3, h=2, supplied={'face_edge'}, start_index=1, phantom_edge_dim=True, invalid=False)),
                    ('ugrid', dict(w=2, h=3, supplied={'face_edge'}, start_index=0, phantom_edge_dim=True, invalid=False)),
                    ('ugrid', dict(w=2, h=3, supplied={'face_face'}, mesh_var_dim=True, invalid=False)),
                    # a curvilinear grid whose longitude is stored (x, y) and whose latitude is stored (y, x)
                    ('cf2d', dict(ny=3, nx=5, bounds=True, holes='none', invalid=False, lon_transposed=True)),
                    ('cf1d', dict(ny=3, nx=12, global_lon=True, bounds=False)), ('cf1d', dict(ny=2, nx=8, global_lon=True, bounds=True))]:
        datasets.append(gen.any_dataset(rng, fam, **kw))
    # one- and two-cell meshes whose topology variable names no face_dimension (optional for the usual layout): fewer faces than
    # nodes per face
    for w_, h_ in ((1, 1), (2, 1)):
        dsm = gen.ugrid(rng, w=w_, h=h_, transposed=False, invalid=False, variety=False)
        dsm.ds['Mesh2'].attrs.pop('face_dimension', None)
        dsm.spec['label'] += ' no-face_dimension-attribute'
        datasets.append(dsm)
    while len(datasets) < n_ds:
        datasets.append(gen.any_dataset(rng))
    # a mesh with a placeholder node (a row on the node dimension without coordinates, used by no face): it is a location of
    # the node grid like any other
    datasets.append(gen.ugrid(rng, w=2, h=2, invalid=False, placeholder_node=True))
    if not quick:
        for fam, kw in [('cf1d', dict(ny=12, nx=15)), ('cf2d', dict(ny=9, nx=11)), ('shoc_standard', dict(nj=7, ni=9))]:
            datasets.append(gen.any_dataset(rng, fam, **kw))

    # data variables are not part of the index arithmetic: every other dataset carries, as its FIRST data variable, one
    # that lists the surface dimensions in reverse order ((lon, lat): legal), every fourth is held column-major in memory
    for k, d in enumerate(datasets):
        if 'plain ArakawaC' in d.spec['label']:
            continue          # bound by hand: a new Dataset object would not carry the binding
        if k % 2 == 1:
            d.ds = gen.leading_reversed_var(rng, d.ds, d.spec['kinds'])
            ctx.count('first_data_variable:surface dimensions reversed')
        if k % 4 == 2:
            d.ds = gen.fortran_layout(d.ds)
            ctx.count('memory_layout:column-major')
        if k % 3 == 0 and d.family in ('cf1d', 'cf2d'):
            # bound by the user, who names the coordinate variables: CFGrid1D(dataset, latitude=..., longitude=...).bind()
            from emsarray.conventions.grid import CFGrid1D, CFGrid2D
            d.ds = d.ds.copy()
            r = attempt(lambda: {'cf1d': CFGrid1D, 'cf2d': CFGrid2D}[d.family](
                d.ds, latitude=d.spec['latname'], longitude=d.spec['lonname']).bind())
            if r[0] != 'ok':
                ctx.report('property', f'binding a CF grid with its coordinate variables named fails: {r[1]}',
                           {'dataset': d.spec['label'], 'latitude': d.spec['latname'], 'longitude': d.spec['lonname']})
            ctx.count('bound_by_hand:coordinate names given')
    exprs = []
    plans = []
    for d in datasets:
        flav = FLAVOUR[d.family]
        ems = d.ds.ems
        enums = all_kind_enums(ems)
        shapes = expected_shapes(d)
        ctx.count(f'family:{d.family}')
        # the kinds asked about include one the dataset may not have (malformed stream)
        knames = list(KCODE[flav].keys())
        g = f'{{| fl := {FCTOR[flav]}; shapes := {to_coq([(KCODE[flav][k], s) for k, s in shapes.items()])} |}}'
        for kname in knames:
            kc = KCODE[flav][kname]
            shape = shapes.get(kname)
            size = 1
            for s in (shape or [1]):
                size *= s
            m = 3 if quick else max(3, size)
            lo, n = -m, size + 2 * m
            box = list(itertools.product(*[range(-1, s + 1) for s in (shape or [2])]))
            if len(box) > (400 if quick else 4000):
                box = rng.sample(box, 400 if quick else 4000)
            # a wrong-arity index as well
            box.append(tuple([0] * (len(shape or [1]) + 1)))
            natives = [(kc, list(ix)) for ix in box]
            exprs.append(f'(wind_table {g} {kc} ({lo}) {n}, ravel_table {g} {to_coq(natives)}, grid_size {g} {kc})')
            plans.append((d, flav, ems, enums, kname, kc, shape, size, lo, n, box))

    model = coq_eval_sharded(['Model.IndexConv'], exprs, shard=60)
    ctx.leg('coq_eval_cases', len(exprs))

    # one-component indexes (meshes): element numbers taken from numpy arrays (flatnonzero, argmin, a connectivity table)
    import numpy as _np2
    dm = gen.ugrid(rng, w=4, h=3, invalid=False, supplied={'edge_node'}, edge_dim_declared=True)
    emsm = dm.ds.ems
    enm = all_kind_enums(emsm)
    for kname, size in expected_shapes(dm).items():
        for k in sorted({0, size[0] - 1, size[0] // 2}):
            for t in (_np2.int16, _np2.int32, _np2.int64, _np2.uint8, _np2.intp):
                r = attempt(emsm.ravel_index, to_native('ugrid', enm, kname, (t(k),)))
                ctx.case(('ugrid', 'int types', kname, k, t.__name__), True)
                if not (r[0] == 'ok' and int(r[1]) == k):
                    ctx.report('property', f'ravel_index of the {kname} numbered {k} given as {t.__name__} = {r[1]!r}',
                               {'dataset': dm.spec['label'], 'kind': kname, 'index': k, 'dtype': t.__name__})
                    break
    # index components of any integer type (rows of a station table read as int16, uint8, int64 ...) denote the same cell as
    # Python integers do - on grids whose sizes exceed what the narrow types hold
    import numpy as _np
    big = [gen.cf1d(rng, ny=190, nx=181, bounds=False), gen.cf2d(rng, ny=130, nx=260, bounds=False, holes='none'),
           gen.arakawa(rng, nj=150, ni=230, holes='none', invalid=False)]
    for d in big:
        ems = d.ds.ems
        flav = FLAVOUR[d.family]
        enums = all_kind_enums(ems)
        shape = expected_shapes(d)['face']
        ctx.count('large_grid:index integer types')
        for (j, i) in [(0, 0), (shape[0] - 1, shape[1] - 1), (shape[0] - 1, 0), (shape[0] // 2 + 40, 3), (127, 127), (128, 129), (100, shape[1] - 1)]:
            if j >= shape[0] or i >= shape[1]:
                continue
            want = j * shape[1] + i
            for t in (_np.int16, _np.int32, _np.int64, _np.uint8, _np.uint16, _np.intp):
                if j > _np.iinfo(t).max or i > _np.iinfo(t).max:
                    continue
                r = attempt(ems.ravel_index, to_native(flav, enums, 'face', (t(j), t(i))))
                ctx.case((d.family, 'int types', j, i, t.__name__), True)
                if r != ('ok', want) and not (r[0] == 'ok' and int(r[1]) == want):
                    ctx.report('property', f'ravel_index of ({j}, {i}) given as {t.__name__} components = {r[1]!r}; the cell is at linear '
                               f'position {want} (grid {shape})', {'dataset': d.spec['label'], 'index': [j, i], 'dtype': t.__name__})
                    break
            if False:
                pass
            w = attempt(ems.wind_index, _np.int64(want), grid_kind=enums['face'])
            w2 = attempt(ems.wind_index, _np.int32(want), grid_kind=enums['face'])
            if w[0] != 'ok' or canon_native(flav, w[1]) != canon_native(flav, to_native(flav, enums, 'face', (j, i))) or w2 != w:
                ctx.report('property', f'wind_index of {want} given as a numpy integer = {w} / {w2}, the cell is ({j}, {i})',
                           {'dataset': d.spec['label'], 'linear': want})

    bulk_used = set()
    for plan, mres in zip(plans, model):
        d, flav, ems, enums, kname, kc, shape, size, lo, n, box = plan
        (m_wind, m_ravel), m_size = mres
        case = {'family': d.family, 'label': d.spec['label'], 'kind': kname, 'shape': shape}
        ctx.case((d.family, str(expected_shapes(d)), kname), shape is not None and size >= 2,
                 sample={'dataset': d.spec['label'], 'kind': kname, 'shape': shape, 'linear_range': [lo, lo + n],
                         'native_box_points': len(box)})
        present = {k.value for k in ems.grid_kinds}
        ctx.count('kind_present' if kname in present else 'kind_absent')
        # ---- implementation tables
        i_wind = []
        for lin in range(lo, lo + n):
            r = attempt(ems.wind_index, lin, grid_kind=enums[kname])
            i_wind.append(Some(canon_native(flav, r[1])) if r[0] == 'ok' else None)
        i_ravel = []
        for ix in box:
            if flav == 'cf' and kname != 'face':
                i_ravel.append(None)
                continue
            r = attempt(ems.ravel_index, to_native(flav, enums, kname, ix))
            i_ravel.append(Some(int(r[1])) if r[0] == 'ok' else None)
        r = attempt(lambda: ems.grid_size[enums[kname]])
        i_size = Some(int(r[1])) if r[0] == 'ok' else None
        # ---- history: the same questions after the dataset has been used in bulk (its geometry exported, its spatial index
        # built, every cell located): the answers - refusals included - are what they were
        if id(d) not in bulk_used:
            bulk_used.add(id(d))
            import warnings as _w
            from emsarray.operations import geometry as _geometry
            with _w.catch_warnings():
                _w.simplefilter('ignore')
                for f in (lambda: _geometry.to_geojson(d.ds), lambda: ems.strtree, lambda: ems.spatial_index, lambda: ems.polygons,
                          lambda: ems.face_centres, lambda: _geometry.to_wkt(d.ds) if hasattr(_geometry, 'to_wkt') else None):
                    try:
                        f()
                    except Exception:      # noqa: BLE001 - whether the export works is C15's question
                        ctx.count('history:bulk use raised')
            ctx.count('history:bulk use before asking again')
        again = []
        for lin in range(lo, lo + n):
            r = attempt(ems.wind_index, lin, grid_kind=enums[kname])
            again.append(Some(canon_native(flav, r[1])) if r[0] == 'ok' else None)
        if again != i_wind:
            k_ = next(i for i, (a, b) in enumerate(zip(again, i_wind)) if a != b)
            ctx.report('property', f'wind_index({lo + k_}, {kname}) answered {i_wind[k_]} on the fresh dataset and {again[k_]} after its '
                       f'geometry was exported and its spatial index built (None: refused)', case)
            continue
        ctx.count('wind_ok', sum(1 for x in i_wind if x is not None))
        ctx.count('wind_err', sum(1 for x in i_wind if x is None))
        ctx.count('ravel_ok', sum(1 for x in i_ravel if x is not None))
        ctx.count('ravel_err', sum(1 for x in i_ravel if x is None))
        # ---- property predicates evaluated on the implementation alone
        bad = None
        if kname in present:
            sz = i_size.v if i_size else None
            if (kname in present) != (shape is not None):
                bad = f'grid kind {kname}: present={kname in present} but expected {shape}'
            seen = set()
            for lin, w in zip(range(lo, lo + n), i_wind):
                inr = sz is not None and 0 <= lin < sz
                if inr and w is None:
                    bad = bad or f'wind_index({lin}) fails inside [0,{sz})'
                elif not inr and w is not None:
                    bad = bad or f'wind_index({lin}) = {w} outside [0,{sz}): wrapped or clamped'
                elif inr:
                    back = attempt(ems.ravel_index, to_native(flav, enums, kname, w.v[1]))
                    if back != ('ok', lin):
                        bad = bad or f'ravel_index(wind_index({lin})) = {back}'
                    seen.add(tuple(w.v[1]))
            # the older spelling of wind_index and the default grid kind left unnamed give the same answers
            import warnings as _w
            for lin in sorted({lo, 0, 1, (sz or 1) - 1, sz or 0}):
                with _w.catch_warnings():
                    _w.simplefilter('ignore')
                    a = attempt(ems.wind_index, lin, grid_kind=enums[kname])
                    b = attempt(ems.unravel_index, lin, enums[kname])
                    same = a == b or (a[0] == b[0] == 'err')
                    if same and enums[kname] == ems.default_grid_kind:
                        c = attempt(ems.wind_index, lin)
                        same = a == c or (a[0] == c[0] == 'err')
                if not same:
                    bad = bad or f'unravel_index / wind_index without a grid kind disagree with wind_index({lin}, {kname}): {a} vs {b}'
            if sz is not None and lo <= 0 and lo + n >= sz and len(seen) != sz:
                bad = bad or f'grid_size {sz} but {len(seen)} distinct native indexes'
            prev = None
            for ix, rv in sorted(zip(box, i_ravel)):
                if len(ix) != len(shape or []):
                    if rv is not None:
                        bad = bad or f'ravel_index accepts wrong-arity index {ix}'
                    continue
                inbox = shape is not None and all(0 <= a < s for a, s in zip(ix, shape))
                if inbox and rv is None:
                    bad = bad or f'ravel_index({ix}) fails inside the grid'
                elif not inbox and rv is not None:
                    bad = bad or f'ravel_index({ix}) = {rv} outside the grid {shape}: wrapped or clamped'
                elif inbox:
                    w = attempt(ems.wind_index, rv.v, grid_kind=enums[kname])
                    if w[0] != 'ok' or canon_native(flav, w[1]) != (kc, list(ix)):
                        bad = bad or f'wind_index(ravel_index({ix})) = {w}'
                    if prev is not None and not prev < rv.v:
                        bad = bad or f'linear order not row-major at {ix}'
                    prev = rv.v
        if bad:
            ctx.report('property', bad, case)
        # ---- correspondence with the model
        diffs = []
        if i_wind != m_wind:
            k = next(i for i, (a, b) in enumerate(zip(i_wind, m_wind)) if a != b)
            diffs.append(f'wind_index({lo + k}): impl {i_wind[k]} model {m_wind[k]}')
        if i_ravel != m_ravel:
            k = next(i for i, (a, b) in enumerate(zip(i_ravel, m_ravel)) if a != b)
            diffs.append(f'ravel_index({box[k]}): impl {i_ravel[k]} model {m_ravel[k]}')
        if i_size != m_size:
            diffs.append(f'grid_size: impl {i_size} model {m_size}')
        if diffs and not bad:
            ctx.report('correspondence', 'model IndexConv and implementation differ: ' + '; '.join(diffs), case,
                       found_input=False)
