"""C09 - clipped and subsetted datasets remain valid datasets with unchanged geometry."""
import itertools
import os
import shutil
import warnings

import numpy
import xarray

import emsarray  # noqa: F401
from coqio import Some, coq_eval_sharded, to_coq
import clipcommon as cc
import gen
import polymodel as pm
from hutil import attempt
from props.c10 import compressed, spec_violations


def explicit_geometry(f):
    """is the cell geometry stored explicitly (bounds / nodes) rather than synthesised from the centres"""
    d = f.d
    if d.family in ('ugrid', 'shoc_standard'):
        return True
    return bool(d.spec.get('bounds'))


def narrow_tables(ctx):
    """meshes whose face-node table is stored in the narrowest integer type that holds its node numbers, some using every
    positive value of the type (127 nodes one-based / 128 nodes zero-based as signed bytes) and some stored unsigned: clipped
    to a region that keeps every face, and to one that keeps half, each selected face keeps exactly its polygon"""
    import tempfile
    import shutil
    import shapely
    tmp = tempfile.mkdtemp(prefix='c09_narrow_', dir=os.environ.get('VERIF_WORK', '/verif/work'))
    try:
        for nn, si, dt, fillv in [(127, 1, 'int8', -99), (128, 0, 'int8', -99), (100, 1, 'int8', -1), (127, 1, 'int16', -999),
                                   (40, 1, 'uint8', 255), (41, 0, 'uint16', 65535)]:
            # a strip of quadrilaterals on 2 (w + 1) nodes, closed by a triangle on one more node when nn is odd
            w = (nn - (nn % 2)) // 2 - 1
            nodes = [(float(i), 0.0) for i in range(w + 1)] + [(float(i), 1.0) for i in range(w + 1)]
            faces = [[i, i + 1, w + 1 + i + 1, w + 1 + i] for i in range(w)]
            if nn % 2:
                nodes.append((w + 1.0, 0.5))
                faces.append([w, 2 * w + 2, 2 * w + 1, None])
            assert len(nodes) == nn
            tab = numpy.array([[fillv if v is None else v + si for v in f] for f in faces]).astype(dt)
            ds = xarray.Dataset({
                'Mesh2': xarray.DataArray(numpy.int32(0), attrs={
                    'cf_role': 'mesh_topology', 'topology_dimension': 2, 'node_coordinates': 'Mesh2_node_x Mesh2_node_y',
                    'face_node_connectivity': 'Mesh2_face_nodes', 'face_dimension': 'nMesh2_face'}),
                'Mesh2_node_x': xarray.DataArray([p[0] for p in nodes], dims=['nMesh2_node'],
                                                 attrs={'standard_name': 'longitude', 'units': 'degrees_east'}),
                'Mesh2_node_y': xarray.DataArray([p[1] for p in nodes], dims=['nMesh2_node'],
                                                 attrs={'standard_name': 'latitude', 'units': 'degrees_north'}),
                'Mesh2_face_nodes': xarray.DataArray(tab, dims=['nMesh2_face', 'nMaxMesh2_face_nodes'],
                                                     attrs={'cf_role': 'face_node_connectivity', 'start_index': numpy.dtype(dt).type(si)}),
                'depth': xarray.DataArray(numpy.arange(len(faces), dtype='f8') + 1, dims=['nMesh2_face']),
            }, attrs={'Conventions': 'UGRID-1.0'})
            src = os.path.join(tmp, f'narrow_{nn}_{si}_{dt}.nc')
            enc = {v: {'_FillValue': None} for v in ds.variables}
            enc['Mesh2_face_nodes'] = {'_FillValue': numpy.dtype(dt).type(fillv)}
            label = f'strip mesh, {nn} nodes numbered from {si}, face-node table stored as {dt} (missing = {fillv})'
            with warnings.catch_warnings():
                warnings.simplefilter('ignore')
                ds.to_netcdf(src, encoding=enc)
                d = emsarray.open_dataset(src)
                d.load()
                want = attempt(lambda: pm.impl_polygons(d.ems))
            if want[0] != 'ok':
                ctx.report('property', f'polygons of the dataset failed: {want[1]}', {'dataset': label})
                continue
            for region, (x0, x1) in [('keeps every face', (-1.0, w + 3.0)), ('keeps the upper half', (w / 2 + 0.5, w + 3.0))]:
                case = {'dataset': label, 'geometry': region, 'box': [x0, -1.0, x1, 2.0], 'buffer': 0}
                ctx.case((label, region), True)
                ctx.count(f'narrow_table:{dt}')
                work = tempfile.mkdtemp(prefix='work_', dir=tmp)
                g = shapely.box(x0, -1.0, x1, 2.0)
                kept = [k for k, p_ in enumerate(want[1]) if shapely.Polygon(p_).intersects(g)]
                with warnings.catch_warnings():
                    warnings.simplefilter('ignore')
                    r = attempt(lambda: d.ems.clip(g, work_dir=work))
                    if r[0] == 'ok':
                        out = r[1]
                        r = attempt(lambda: (out.load(), pm.impl_polygons(out.ems))[1])
                if r[0] != 'ok':
                    ctx.report('property', f'clip failed: {r[1]}', case)
                    continue
                if r[1] != [want[1][k] for k in kept]:
                    difs = [k for k, (a, b) in enumerate(zip(r[1], [want[1][k] for k in kept])) if a != b]
                    ctx.report('property', f'{len(r[1])} polygons after the clip for {len(kept)} selected faces; selected face '
                               f'{kept[difs[0]] if difs else None} has polygon {r[1][difs[0]] if difs else None}, originally '
                               f'{want[1][kept[difs[0]]] if difs else None}', case)
                    continue
                saved = os.path.join(tmp, f'out_{nn}_{si}_{dt}_{len(kept)}.nc')
                with warnings.catch_warnings():
                    warnings.simplefilter('ignore')
                    r = attempt(lambda: out.ems.to_netcdf(saved))
                    if r[0] == 'ok':
                        r = attempt(lambda: pm.impl_polygons(emsarray.open_dataset(saved).ems))
                if r[0] != 'ok' or r[1] != [want[1][k] for k in kept]:
                    ctx.report('property', f'saved and reopened, the clipped mesh does not have the polygons of the selected faces: '
                               f'{r[1] if r[0] != "ok" else "polygons differ"}', case)
                    continue
                odt, oattrs, _ = cc.raw_var(saved, 'Mesh2_face_nodes')
                if odt != dt or int(oattrs.get('start_index', 0)) != si:
                    ctx.report('property', f'face-node table stored as {odt} with start_index {oattrs.get("start_index")} after the clip', case)
    finally:
        shutil.rmtree(tmp, ignore_errors=True)


def geometry_names_leg(ctx):
    """get_all_geometry_names / select_variables / drop_geometry against Model.GeomNames: which variables are the geometry, and
    which variables a subset holds, for datasets of every convention with depth and time coordinates and extra variables."""
    import props.c12 as c12
    rng = ctx.rng
    n_ds = 30 if ctx.tier == 'quick' else 200
    exprs, plans = [], []
    SHOC_NAMES = [('x_centre', 'y_centre'), ('x_grid', 'y_grid'), ('x_left', 'y_left'), ('x_back', 'y_back')]
    for n in range(n_ds):
        fam = gen.FAMILIES[n % len(gen.FAMILIES)]
        if n % 2 == 0:
            d, ds, _specs, _variables, _tname = c12.make_dataset(rng, fam)          # with depth and time coordinates
        else:
            d = gen.any_dataset(rng, fam)
            ds = d.ds
            # (a SHOC simple file names its time variable `time`; a dimension of that name without the variable is an artefact no
            # file has - see section 13 of DESIGN.md - so the dimension gets its variable)
            gen.add_data_vars(rng, ds, d.spec['kinds'], names_prefix='gv')
            if d.family == 'shoc_simple' and 'time' in ds.dims and 'time' not in ds.variables:
                ds = gen.add_time(ds, n=ds.sizes['time'])
        with warnings.catch_warnings():
            warnings.simplefilter('ignore')
            ems = ds.ems
            vnames = [str(v) for v in ds.variables]
            vid = {v: i for i, v in enumerate(vnames)}
            got_geom = attempt(lambda: [vid[str(x)] for x in ems.get_all_geometry_names()])
            depth_ids = [vid[str(c.name)] for c in ems.depth_coordinates]
            try:
                time_id = vid[str(ems.time_coordinate.name)]
            except Exception:      # noqa: BLE001
                time_id = None

        def oid(name):
            return 'None' if name is None else f'(Some {vid.get(str(name), 9000)})'

        def bounds_of(v):
            return ds[v].attrs.get('bounds', ds[v].encoding.get('bounds'))
        if d.family in ('cf1d', 'cf2d', 'shoc_simple'):
            lonname, latname = d.spec['lonname'], d.spec['latname']
            glit = f'(grid_names {vid[lonname]} {vid[latname]} {oid(bounds_of(lonname))} {oid(bounds_of(latname))} {to_coq(list(range(len(vnames))))})'
        elif d.family == 'shoc_standard':
            glit = '(arakawa_names ' + ' '.join(f'({vid[x]}, {vid[y]})' for x, y in SHOC_NAMES) + ')'
        else:
            mv = next(v for v in vnames if ds[v].attrs.get('cf_role') == 'mesh_topology')
            a = ds[mv].attrs

            def table(role):
                nm = a.get(role)
                return nm if nm is not None and nm in vid else None

            def coord(role, k):
                parts = str(a.get(role, '')).split()
                return parts[k] if len(parts) == 2 and all(x in vid for x in parts) else None
            nx_, ny_ = str(a['node_coordinates']).split()
            glit = ('{| m_var := %d; m_face_node := %d; m_node_x := %d; m_node_y := %d; m_face_edge := %s; m_face_face := %s; '
                    'm_edge_node := %s; m_edge_face := %s; m_edge_x := %s; m_edge_y := %s; m_face_x := %s; m_face_y := %s |}' % (
                        vid[mv], vid[a['face_node_connectivity']], vid[nx_], vid[ny_], oid(table('face_edge_connectivity')),
                        oid(table('face_face_connectivity')), oid(table('edge_node_connectivity')), oid(table('edge_face_connectivity')),
                        oid(coord('edge_coordinates', 0)), oid(coord('edge_coordinates', 1)), oid(coord('face_coordinates', 0)),
                        oid(coord('face_coordinates', 1))))
            glit = f'(ugrid_names {glit})'
        geom_set = set(got_geom[1]) if got_geom[0] == 'ok' else set()
        others = [v for v in vnames if vid[v] not in geom_set and vid[v] not in depth_ids and vid[v] != time_id]
        chosen = rng.sample(others, min(len(others), rng.randint(0, 3)))
        unknown = n % 7 == 3
        ask = chosen + (['not_in_this_dataset'] if unknown else [])
        as_arrays = n % 3 == 1 and not unknown
        case = {'dataset': d.spec['label'], 'variables': vnames, 'asked for': ask, 'given as': 'arrays' if as_arrays else 'names'}
        with warnings.catch_warnings():
            warnings.simplefilter('ignore')
            r = attempt(lambda: ems.select_variables([ds[v] for v in ask] if as_arrays else ask))
            got_sel = Some([vid[str(v)] for v in r[1].variables]) if r[0] == 'ok' else None
            got_drop = None
            if r[0] == 'ok':
                r2 = attempt(lambda: [vid[str(v)] for v in r[1].ems.drop_geometry().variables])
                got_drop = r2[1] if r2[0] == 'ok' else ('err', r2[1])
                # the subset's own geometry names are the dataset's
                r3 = attempt(lambda: [vid[str(x)] for x in r[1].ems.get_all_geometry_names()])
                if got_geom[0] == 'ok' and r3 != got_geom:
                    ctx.report('property', f'the subset made by select_variables({ask}) names the geometry variables {r3}, the dataset '
                               f'{got_geom} (numbered in dataset order)', case)
        ctx.count(f'geometry_names:{d.family}:asked={len(chosen)}{"+unknown" if unknown else ""}')
        ctx.case((d.spec['label'], 'geometry names', tuple(ask)), bool(chosen))
        chosen_lit = to_coq([vid.get(v, 9999) for v in ask])
        exprs.append(f'(let vars := {to_coq(list(range(len(vnames))))} in let geom := {glit} in (geom, '
                     f'match select_variables vars {chosen_lit} geom {to_coq(depth_ids)} {oid(None) if time_id is None else f"(Some {time_id})"} with '
                     f'Some out => Some (out, drop_geometry out geom) | None => None end))')
        plans.append((case, got_geom, got_sel, got_drop))
    model = coq_eval_sharded(['Model.GeomNames'], exprs, shard=15, workers=6)
    ctx.leg('geometry_name_cases', len(exprs))
    for (case, got_geom, got_sel, got_drop), (m_geom, m_sel) in zip(plans, model):
        want_geom = ('ok', [int(x) for x in m_geom])
        if want_geom != got_geom:
            ctx.report('correspondence', f'model GeomNames geometry names {want_geom}, get_all_geometry_names {got_geom} (variables numbered in '
                       f'dataset order)', case, found_input=False)
            continue
        want_sel = None if m_sel is None else Some([int(x) for x in m_sel.v[0]])
        if want_sel != got_sel:
            ctx.report('correspondence', f'model GeomNames.select_variables {want_sel}, implementation {got_sel}', case, found_input=False)
            continue
        if m_sel is not None and [int(x) for x in m_sel.v[1]] != got_drop:
            ctx.report('correspondence', f'model GeomNames.drop_geometry of the subset {[int(x) for x in m_sel.v[1]]}, implementation {got_drop}',
                       case, found_input=False)


def run(ctx):
    rng = ctx.rng
    quick = ctx.tier == 'quick'
    ctx.rule = ('the clips of C08 (every convention; CF coordinates as coordinates or plain variables; meshes 0/1-based, NaN / '
                '_FillValue attribute / no fill, every subset of the optional connectivity) inspected for: same convention class, '
                'also after saving and reopening; polygons of selected cells unchanged and no new polygon where geometry is stored '
                'explicitly; every connectivity table of the input present, renumbered as the model says, consistent with the '
                'others, same integer type and index base in the saved file; plus select_variables on subsets of the data variables. '
                'non-trivial = the clip drops at least one cell; distinct by case description')
    # ---- select_variables asked for data variables that look like coordinates themselves (positions of velocity points: 2-D
    # fields with units degrees_east / degrees_north stored after the real coordinates): the subset has the dataset's geometry
    for fam, kw in [('cf1d', dict(ny=3, nx=4)), ('cf2d', dict(ny=3, nx=3, invalid=False, holes='none')), ('cf1d', dict(ny=2, nx=5, bounds=True))]:
        dq = gen.any_dataset(ctx.rng, fam, **kw)
        gd = dq.spec['kinds']['face']
        shp = [dq.ds.sizes[x] for x in gd]
        base = numpy.arange(int(numpy.prod(shp)), dtype='f8').reshape(shp)
        dq.ds['temp'] = xarray.DataArray(base + 100, dims=gd)
        dq.ds['lon_u'] = xarray.DataArray(base / 8 + 300, dims=gd, attrs={'units': 'degrees_east', 'long_name': 'longitude of u points'})
        dq.ds['lat_u'] = xarray.DataArray(base / 8 - 60, dims=gd, attrs={'units': 'degrees_north', 'standard_name': 'latitude'})
        with warnings.catch_warnings():
            warnings.simplefilter('ignore')
            r0 = attempt(lambda: (type(dq.ds.ems), pm.impl_polygons(dq.ds.ems)))
        if r0[0] != 'ok':
            continue
        for sub in (['lon_u'], ['lat_u', 'lon_u'], ['lon_u', 'temp'], ['temp']):
            qcase = {'dataset': dq.spec['label'], 'select_variables': sub, 'what': 'requested variables carry longitude / latitude units'}
            ctx.case((dq.spec['label'], 'select coordinate-like', tuple(sub)), True)
            ctx.count('select_variables:coordinate-like data variables')
            with warnings.catch_warnings():
                warnings.simplefilter('ignore')
                r = attempt(lambda: dq.ds.ems.select_variables(sub))
                r1 = attempt(lambda: (type(r[1].ems), pm.impl_polygons(r[1].ems))) if r[0] == 'ok' else r
            if r1[0] != 'ok':
                ctx.report('property', f'select_variables({sub}): the subset has no usable geometry: {r1[1]}', qcase)
            elif r1[1][0] is not r0[1][0] or r1[1][1] != r0[1][1]:
                ctx.report('property', f'select_variables({sub}): the subset is handled by {r1[1][0].__name__} and its polygons '
                           f'{"differ from" if r1[1][1] != r0[1][1] else "equal"} those of the dataset ({r0[1][0].__name__})', qcase)
    # ---- a mesh whose stored face positions (face_coordinates) are held as xarray coordinates, the others as plain variables:
    # every geometry variable stays with a subset of the data variables, and the face centres stay the stored ones
    for coords_mode in (True, False):
        dm_ = gen.ugrid(rng, w=3, h=2, invalid=False, supplied=set(), face_coords=True, coords_as_coords=coords_mode)
        gen.add_data_vars(rng, dm_.ds, {'face': dm_.spec['kinds']['face']}, names_prefix='fv', n_extra_max=0)
        dsm = dm_.ds
        if coords_mode:
            dsm = dsm.set_coords([v for v in ('Mesh2_face_x', 'Mesh2_face_y') if v in dsm.data_vars])
        mcase = {'dataset': dm_.spec['label'], 'face positions held as': 'coordinates' if 'Mesh2_face_x' in dsm.coords else 'variables'}
        ctx.case((dm_.spec['label'], 'face positions', coords_mode), True)
        ctx.count('select_variables:stored face positions')
        with warnings.catch_warnings():
            warnings.simplefilter('ignore')
            r = attempt(lambda: dsm.ems.select_variables(['fv_face_0']))
            c0 = attempt(lambda: numpy.asarray(dsm.ems.face_centres).tolist())
            c1 = attempt(lambda: numpy.asarray(r[1].ems.face_centres).tolist()) if r[0] == 'ok' else r
        want_c = [[float(a), float(b)] for a, b in zip(dsm['Mesh2_face_x'].values, dsm['Mesh2_face_y'].values)]
        if r[0] != 'ok':
            ctx.report('property', f'select_variables failed: {r[1]}', mcase)
        elif not {'Mesh2_face_x', 'Mesh2_face_y'} <= set(map(str, r[1].variables)):
            ctx.report('property', f'select_variables dropped the stored face positions: the subset holds {sorted(map(str, r[1].variables))}', mcase)
        elif c0[0] != 'ok' or c1[0] != 'ok' or c0[1] != want_c or c1[1] != want_c:
            ctx.report('property', 'the face centres of the dataset / of the subset are not the stored face positions', mcase)
    narrow_tables(ctx)
    fl, tmp = cc.flows(ctx, 55 if quick else 165, quick)
    exprs, plans = [], []
    fill_exprs, fill_plans = [], []
    try:
        for f in fl:
            case = f.case
            ctx.count(f'family:{f.d.family}')
            ctx.count(f'history:{f.history}')
            if f.error:
                ctx.case((case['dataset'], f.tag, f.buffer, f.history), True)
                ctx.report('property', f.error, case)
                continue
            out, target = f.out, f.target
            cls = type(target.ems)
            bad = None
            with warnings.catch_warnings():
                warnings.simplefilter('ignore')
                r = attempt(lambda: type(out.ems))
            if r[0] != 'ok' or r[1] is not cls:
                bad = f'the clipped dataset is recognised as {r[1]}, the input is {cls.__name__}'
            if not bad and f.saved is None:
                bad = f'the clipped dataset cannot be saved: {f.save_error}'
            if not bad:
                with warnings.catch_warnings():
                    warnings.simplefilter('ignore')
                    r = attempt(lambda: type(emsarray.open_dataset(f.saved).ems))
                if r[0] != 'ok' or r[1] is not cls:
                    bad = f'saved and reopened, the clipped dataset is recognised as {r[1]}, the input is {cls.__name__}'
            if bad:
                ctx.case((case['dataset'], f.tag, f.buffer, f.history), True)
                ctx.report('property', bad, case)
                continue
            with warnings.catch_warnings():
                warnings.simplefilter('ignore')
                r = attempt(lambda: pm.impl_polygons(out.ems))
            if r[0] != 'ok':
                if explicit_geometry(f):
                    ctx.report('property', f'polygons of the clipped dataset failed: {r[1]}', case)
                else:
                    # geometry synthesised from the cell centres: a crop one cell wide leaves too few centres to
                    # synthesise bounds from (documented precondition of the bounds synthesis, outside the property)
                    ctx.count('implicit_geometry_polygons_unavailable')
                continue
            opolys = r[1]
            tpolys = pm.impl_polygons(target.ems)
            if f.d.family != 'ugrid':
                masks = cc.grid_masks(f)
                bounds = cc.grid_bounds(masks)
                name, dims, face = masks[0]          # cell_mask / face_mask comes first
                (lj, hj), (li, hi) = bounds[dims[0]], bounds[dims[1]]
                ny, nx = face.shape
                dropped = not face.all()
                ctx.case((case['dataset'], f.tag, f.buffer, f.history), dropped,
                         sample=dict(case, crop=[lj, hj, li, hi]) if dropped and len(ctx.samples) < 3 else None)
                ctx.count(f'explicit_geometry:{explicit_geometry(f)}')
                if len(opolys) != (hj - lj) * (hi - li):
                    ctx.report('property', f'{len(opolys)} cells after the clip, the crop box holds {(hj - lj) * (hi - li)}', case)
                    continue
                if explicit_geometry(f):
                    for j in range(lj, hj):
                        for i in range(li, hi):
                            orig = tpolys[j * nx + i]
                            new = opolys[(j - lj) * (hi - li) + (i - li)]
                            if face[j, i] and new != orig:
                                bad = f'selected cell ({j},{i}): polygon {new} after the clip, {orig} before'
                            elif not face[j, i] and new is not None and new != orig:
                                bad = f'cell ({j},{i}) was not selected and has a polygon {new} the original did not have ({orig})'
                            if bad:
                                break
                        if bad:
                            break
                    if bad:
                        ctx.report('property', bad, case)
            else:
                topo_in, topo_out = target.ems.topology, out.ems.topology
                tabs = {'face': cc.tab_of(f.mask, 'new_face_index'), 'node': cc.tab_of(f.mask, 'new_node_index')}
                if f.d.spec['has_edge_dim'] and 'new_edge_index' in f.mask:
                    tabs['edge'] = cc.tab_of(f.mask, 'new_edge_index')
                elif f.d.spec['has_edge_dim']:
                    # the mask does not renumber the edges although the mesh has them: the edges that must survive are
                    # the edges of the surviving faces (input tables), numbered in their original order
                    with warnings.catch_warnings():
                        warnings.simplefilter('ignore')
                        fe_in = attempt(lambda: cc.opt_rows(topo_in.face_edge_array))
                    if fe_in[0] == 'ok':
                        kept_f = [i for i, x in enumerate(tabs['face']) if x is not None]
                        used = sorted({x.v for i in kept_f for x in fe_in[1][i] if x is not None})
                        tab = [None] * int(topo_in.edge_count)
                        for new_i, e in enumerate(used):
                            tab[e] = Some(new_i)
                        tabs['edge'] = tab
                        ctx.count('edge numbering derived by the harness (mask has no new_edge_index)')
                    else:
                        # (an edge dimension is declared by the mesh or implied by either of its edge tables)
                        ctx.report('property', f'the mesh has edges (edge dimension declared or implied by its edge tables) but the clip '
                                   f'mask does not renumber them and the convention cannot list the edges of its faces ({fe_in[1]}): '
                                   f'variables and tables on edges cannot be cut to the selected faces', case)
                        continue
                keep = {k: [i for i, x in enumerate(t) if x is not None] for k, t in tabs.items()}
                dropped = len(keep['face']) < len(tabs['face'])
                ctx.case((case['dataset'], f.tag, f.buffer, f.history), dropped,
                         sample=dict(case, kept_faces=keep['face']) if dropped and len(ctx.samples) < 3 else None)
                want_polys = [tpolys[k] for k in keep['face']]
                if opolys != want_polys:
                    ctx.report('property', 'the polygons of the clipped mesh are not exactly the polygons of the selected faces, in order',
                               case)
                    continue
                supplied = f.d.spec['supplied']
                present = ['face_node'] + [t for t in ('edge_node', 'face_edge', 'edge_face', 'face_face')
                                            if t in supplied and (not t.startswith('edge') or f.d.spec['has_edge_dim'])]
                e_tabs = []
                obs = []
                arrays_out = {}
                for t in present:
                    var = cc.CONN[t]
                    ctx.count(f'table:{t}')
                    if var not in out.variables:
                        bad = f'connectivity variable {var} of the input is missing from the clipped dataset'
                        break
                    rk, ck = cc.ROWCOL[t]
                    if rk not in tabs or ck not in tabs:
                        continue
                    with warnings.catch_warnings():
                        warnings.simplefilter('ignore')
                        old = attempt(lambda: cc.opt_rows(getattr(topo_in, t + '_array')))
                        new = attempt(lambda: cc.opt_rows(getattr(topo_out, t + '_array')))
                    if old[0] != 'ok' or new[0] != 'ok':
                        bad = f'{t}_array of the clipped dataset failed: {new}'
                        break
                    arrays_out[t] = new[1]
                    # refers only to surviving elements under the new numbering
                    count = len(keep[ck])
                    if any(x is not None and not (0 <= x.v < count) for row in new[1] for x in row):
                        bad = f'{t}: an entry refers to an element outside the {count} surviving {ck}s'
                        break
                    if len(new[1]) != len(keep[rk]):
                        bad = f'{t}: {len(new[1])} rows for {len(keep[rk])} surviving {rk}s'
                        break
                    e_tabs.append(f'update_conn {to_coq(tabs[rk])} {to_coq(tabs[ck])} {to_coq(old[1])}')
                    obs.append([[x for x in row] for row in new[1]])
                    # integer type and index base in the file
                    sdt, sattrs, _ = cc.raw_var(f.src, var)
                    odt, oattrs, oraw = cc.raw_var(f.saved, var)
                    if numpy.dtype(odt).kind == 'i' and numpy.dtype(sdt).kind == 'i' and odt != sdt:
                        bad = f'{var}: stored as {odt} after the clip, {sdt} before'
                        break
                    if numpy.dtype(sdt).kind == 'i' and numpy.dtype(odt).kind != 'i':
                        bad = f'{var}: stored as {odt} after the clip, the input stores {sdt}'
                        break
                    if int(oattrs.get('start_index', 0)) != int(sattrs.get('start_index', 0)):
                        bad = f'{var}: start_index {oattrs.get("start_index")} after the clip, {sattrs.get("start_index")} before'
                        break
                    # the value that stands for "no element" in the stored table: the all-nines value beyond every element
                    # number of the input mesh, capped at what the stored type holds (model Fill); every stored entry is
                    # the new number of its element offset by start_index, or that value
                    if '_FillValue' in oattrs:
                        si_ = int(oattrs.get('start_index', 0))
                        ofill = oattrs['_FillValue']
                        maxrep = ((int(numpy.iinfo(numpy.dtype(odt)).min), int(numpy.iinfo(numpy.dtype(odt)).max))
                                  if numpy.dtype(odt).kind in 'iu' else None)
                        fill_exprs.append(f'({"None" if maxrep is None else f"Some (({maxrep[0]}), {maxrep[1]})"}, sensible_fill '
                                          f'{int(topo_in.node_count)} {int(topo_in.face_count)} {int(topo_in.max_node_count)})')
                        fill_plans.append((dict(case, table=t, stored_as=odt), float(ofill), maxrep))
                        ctx.count(f'stored fill:{odt}')
                        rawv = numpy.asarray(oraw)
                        real = rawv[rawv != ofill]
                        if real.size and (real.min() - si_ < 0 or real.max() - si_ >= count):
                            bad = (f'{var}: stored entries {sorted(set(real.tolist()))[:6]}.. (start_index {si_}, missing = {ofill}) name '
                                   f'elements outside the {count} surviving {ck}s')
                            break
                if bad:
                    ctx.report('property', bad, case)
                    continue
                if e_tabs:
                    exprs.append('[' + '; '.join(e_tabs) + ']')
                    plans.append((case, obs))
                # the tables agree with each other (when all five can be had)
                if f.d.spec['has_edge_dim']:
                    with warnings.catch_warnings():
                        warnings.simplefilter('ignore')
                        five = attempt(lambda: [compressed(cc.opt_rows(getattr(topo_out, t + '_array')))
                                                for t in ('face_node', 'edge_node', 'face_edge', 'edge_face', 'face_face')])
                        five_in = attempt(lambda: [compressed(cc.opt_rows(getattr(topo_in, t + '_array')))
                                                   for t in ('face_node', 'edge_node', 'face_edge', 'edge_face', 'face_face')])
                    if five_in[0] == 'ok' and not spec_violations(*five_in[1]):
                        if five[0] != 'ok':
                            ctx.report('property', f'the tables of the clipped mesh cannot be derived: {five[1]}', case)
                        else:
                            v = spec_violations(*five[1])
                            # edges on the new boundary keep only their surviving face: that is consistent
                            if v:
                                ctx.report('property', 'the connectivity tables of the clipped mesh disagree: ' + v[0], case)
            # ---- keeping only some data variables leaves the geometry identical
            names = [str(n) for n, _, _ in f.added]
            subsets = [[]] + [[n] for n in names[:2]] + ([names] if names else [])
            # ... also when the stored bounds are held as xarray coordinates rather than plain variables
            sources = [('as opened', target)]
            if f.d.family in ('cf1d', 'cf2d', 'shoc_simple') and f.d.spec.get('bounds'):
                bnames = [target[nm].attrs.get('bounds') for nm in (f.d.spec['latname'], f.d.spec['lonname'])]
                bnames = [b for b in bnames if b is not None and b in target.data_vars]
                if bnames:
                    sources.append(('bounds as coordinates', target.set_coords(bnames)))
            for (how, source), sub in itertools.product(sources, subsets):
                with warnings.catch_warnings():
                    warnings.simplefilter('ignore')
                    r = attempt(lambda: source.ems.select_variables(sub))
                ctx.count('select_variables')
                if r[0] != 'ok':
                    ctx.report('property', f'select_variables({sub}) failed: {r[1]}', case)
                    break
                sv = r[1]
                with warnings.catch_warnings():
                    warnings.simplefilter('ignore')
                    p2 = attempt(lambda: pm.impl_polygons(sv.ems))
                if p2[0] != 'ok' or p2[1] != tpolys or type(sv.ems) is not cls:
                    ctx.report('property', f'select_variables({sub}) ({how}) changes the geometry or the convention', dict(case, held=how))
                    break
                if sorted(str(v) for v in sv.data_vars if str(v) in names) != sorted(sub):
                    ctx.report('property', f'select_variables({sub}) kept {sorted(map(str, sv.data_vars))}', case)
                    break
        model = coq_eval_sharded(['Base.Index', 'Model.Mask', 'Model.Clip'], exprs, shard=6, workers=12)
        ctx.leg('updated_tables', len(exprs))
        if fill_exprs:
            mfill = coq_eval_sharded(['Model.Fill'], [f'(let p := {e} in match fst p with Some m => capped_fill (fst m) (snd m) (snd p) | None => snd p end)'
                                                      for e in fill_exprs], shard=40, workers=4)
            ctx.leg('stored_fill_values', len(fill_exprs))
            for (fcase, ofill, maxrep), mv in zip(fill_plans, mfill):
                if float(mv) != ofill:
                    ctx.report('correspondence', f'the clipped table stores {ofill} for "no element"; model Fill gives {mv} '
                               f'(smallest and largest value of the stored type: {maxrep})', fcase, found_input=False)
        for (case, obs), mres in zip(plans, model):
            if obs != mres:
                ctx.report('correspondence', f'model Clip.update_conn {mres} differs from the clipped connectivity {obs}', case,
                           found_input=False)
    finally:
        shutil.rmtree(tmp, ignore_errors=True)
    geometry_names_leg(ctx)
