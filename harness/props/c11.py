"""C11 - convention detection and binding are deterministic and stable."""
import itertools
import warnings

import numpy
import xarray

import emsarray  # noqa: F401
from emsarray.conventions import Convention, get_dataset_convention
from emsarray.conventions._registry import registry
from coqio import Ctor, Some, coq_eval_sharded, to_coq
import gen
from hutil import attempt

CLS_ID = {'ArakawaC': 1, 'CFGrid1D': 2, 'CFGrid2D': 3, 'ShocSimple': 4, 'ShocStandard': 5, 'UGrid': 6}
LAT_UNITS = {'degrees_north', 'degree_north', 'degree_N', 'degrees_N', 'degreeN', 'degreesN'}
LON_UNITS = {'degrees_east', 'degree_east', 'degree_E', 'degrees_E', 'degreeE', 'degreesE'}
SHOC8 = ['y_centre', 'x_centre', 'y_left', 'x_left', 'y_back', 'x_back', 'y_grid', 'x_grid']


def features_of(ds):
    """the facts the documentation says detection depends on, read straight off the dataset"""
    lat = lon = None
    for name, v in ds.variables.items():
        if lat is None and (v.attrs.get('units') in LAT_UNITS or v.attrs.get('standard_name') == 'latitude'
                            or v.attrs.get('axis') == 'Y'):
            lat = len(v.dims)
        if lon is None and (v.attrs.get('units') in LON_UNITS or v.attrs.get('standard_name') == 'longitude'
                            or v.attrs.get('axis') == 'X'):
            lon = len(v.dims)
    mesh = [v for v in ds.data_vars.values() if v.attrs.get('cf_role') == 'mesh_topology']
    return {
        'lat_dims': lat, 'lon_dims': lon,
        'ems_version': 'ems_version' in ds.attrs,
        'has_ji': {'j', 'i'} <= set(ds.dims),
        'shoc_coords': all(n in ds.variables for n in SHOC8),
        'ugrid_marker': 'UGRID' in str(ds.attrs.get('Conventions', '')),
        'mesh_var': bool(mesh),
        'topo_dim2': bool(mesh) and mesh[0].attrs.get('topology_dimension') == 2,
    }


def features_literal(f):
    def o(x):
        return 'None' if x is None else f'(Some {x})'
    return ('{| lat_dims := %s; lon_dims := %s; ems_version := %s; has_ji := %s; shoc_coords := %s; ugrid_marker := %s; '
            'mesh_var := %s; topo_dim2 := %s |}' % (o(f['lat_dims']), o(f['lon_dims']), to_coq(f['ems_version']),
                                                   to_coq(f['has_ji']), to_coq(f['shoc_coords']), to_coq(f['ugrid_marker']),
                                                   to_coq(f['mesh_var']), to_coq(f['topo_dim2'])))


def near_misses(rng, d):
    """(label, dataset) variants with one distinguishing attribute / variable / dimension removed or altered"""
    ds = d.ds
    out = [('as generated', ds)]
    fam = d.family

    def drop_attr(ds, var, attr):
        ds2 = ds.copy()
        ds2[var].attrs = {k: v for k, v in ds2[var].attrs.items() if k != attr}
        return ds2
    if fam in ('cf1d', 'cf2d', 'shoc_simple'):
        latn, lonn = (d.spec['latname'], d.spec['lonname']) if fam == 'cf1d' else (None, None)
        for name, v in ds.variables.items():
            markers = [a for a in ('units', 'standard_name', 'axis') if a in v.attrs]
            if v.attrs.get('units') in LAT_UNITS | LON_UNITS or v.attrs.get('standard_name') in ('latitude', 'longitude') \
                    or v.attrs.get('axis') in ('X', 'Y'):
                ds2 = ds.copy()
                ds2[name].attrs = {k: a for k, a in v.attrs.items() if k not in ('units', 'standard_name', 'axis')}
                out.append((f'{name} loses its CF markers', ds2))
    if fam == 'shoc_simple':
        ds2 = ds.copy()
        ds2.attrs = {k: v for k, v in ds.attrs.items() if k != 'ems_version'}
        out.append(('no ems_version attribute', ds2))
        out.append(('dimension j renamed', ds.rename({'j': 'jj'})))
    if fam == 'shoc_standard':
        out.append(('x_left dropped', ds.drop_vars('x_left')))
        out.append(('y_grid renamed', ds.rename({'y_grid': 'y_node'})))
    if fam == 'ugrid':
        ds2 = ds.copy()
        ds2.attrs = {k: v for k, v in ds.attrs.items() if k != 'Conventions'}
        out.append(('no Conventions attribute', ds2))
        ds2 = ds.copy()
        ds2.attrs['Conventions'] = 'CF-1.6'
        out.append(('Conventions = CF-1.6', ds2))
        ds2 = ds.copy()
        ds2.attrs['Conventions'] = 'CF-1.6, UGRID-1.0'
        out.append(('Conventions lists UGRID second', ds2))
        # CF allows a comma separated list (with or without blanks) as well as a blank separated one; some writers use other marks
        for text in ('CF-1.6,UGRID-1.0', 'CF-1.6/UGRID-1.0', 'CF-1.6 UGRID-1.0', 'UGRID-1.0;CF-1.6', 'CF-1.6+UGRID-1.0'):
            ds2 = ds.copy()
            ds2.attrs['Conventions'] = text
            out.append((f'Conventions = {text}', ds2))
        out.append(('no topology_dimension', drop_attr(ds, 'Mesh2', 'topology_dimension')))
        ds2 = ds.copy()
        ds2['Mesh2'].attrs = dict(ds2['Mesh2'].attrs, topology_dimension=numpy.int32(1))
        out.append(('topology_dimension = 1', ds2))
        out.append(('no cf_role on the mesh variable', drop_attr(ds, 'Mesh2', 'cf_role')))
    return out


def make_synthetic(ident, spec):
    """a convention class that matches every dataset carrying attribute `synthetic` with a fixed specificity"""
    class Synthetic(Convention):
        specificity = spec

        @classmethod
        def check_dataset(cls, dataset):
            return cls.specificity

        # the rest of the interface is irrelevant for detection / binding
        def __getattr__(self, name):
            raise AttributeError(name)
    Synthetic.__abstractmethods__ = frozenset()
    Synthetic.__name__ = f'Synthetic{ident}'
    Synthetic.__qualname__ = Synthetic.__name__
    return Synthetic


class RegistrySnapshot:
    def __enter__(self):
        self.saved = list(registry.registered_conventions)
        return self

    def __exit__(self, *a):
        registry.registered_conventions[:] = self.saved
        registry.__dict__.pop('conventions', None)


def run(ctx):
    rng = ctx.rng
    quick = ctx.tier == 'quick'
    ctx.rule = ('(A) detection: datasets of every convention and near misses (one CF marker, attribute, variable or dimension '
                'removed or altered) x all orders of registering 0-3 synthetic conventions with chosen specificities; chosen class '
                'against the model and against "most specific, earliest listed" evaluated on the implementation; (B) binding: every '
                'sequence up to length 3 (thorough 4) of {access, construct+bind, copy} over the datasets existing at that point, '
                'plus random longer sequences, on a detectable and on an undetectable dataset; outputs (object identities by order '
                'of creation, refusals) against the model. non-trivial = >= 2 classes match (A) / the history rebinds or copies (B)')
    entry = [CLS_ID[c.__name__] for c in registry.entry_point_conventions]
    id_cls = {CLS_ID[c.__name__]: c for c in registry.entry_point_conventions}
    ctx.notes.append(f'entry point order read at run time: {[c.__name__ for c in registry.entry_point_conventions]}')
    synth_specs = {7: 10, 8: 30, 9: 30, 10: 20, 11: None, 12: 0, 13: 35}        # 12: a catch-all fallback of specificity 0; 13: more specific than HIGH
    synth = {i: make_synthetic(i, s) for i, s in synth_specs.items()}
    id_cls.update(synth)
    cls_id = {v: k for k, v in id_cls.items()}
    table = to_coq([(i, -1 if s is None else s) for i, s in synth_specs.items()])

    def check_expr(flit):
        return (f'(fun c => match lookup c {table} with Some s => if s <? 0 then None else Some s '
                f'| None => check_builtin {flit} c end)')

    # ---------------- (A)
    exprs, plans = [], []
    n_ds = 10 if quick else 60
    regs = [()]
    for r in (1, 2, 3):
        pool = list(itertools.permutations([7, 8, 9, 10, 11, 12], r))
        regs += pool if not quick else rng.sample(pool, 6 if r > 1 else 5)
    for n in range(n_ds):
        d = gen.any_dataset(rng, gen.FAMILIES[n % len(gen.FAMILIES)])
        if d.family == 'ugrid' and (n // len(gen.FAMILIES)) % 2 == 0:
            # the mesh topology dummy variable written with a length-one dimension, as some models do (`int mesh(one)`)
            d = gen.ugrid(rng, w=2, h=2, invalid=False, mesh_var_dim=True)
        if d.family == 'cf2d' and (n // len(gen.FAMILIES)) % 2 == 0:
            # a curvilinear grid whose longitude is stored (x, y) while its latitude is stored (y, x)
            d = gen.cf2d(rng, ny=3, nx=4, bounds=True, holes='none', invalid=False, lon_transposed=True)
        for label, ds in near_misses(rng, d):
            f = features_of(ds)
            flit = features_literal(f)
            for reg in ((regs + [(8, 13), (13, 8), (9, 13, 7)]) if not quick else [(), (12,), (8, 13), rng.choice([(11, 12), (12, 7), (12, 11), (13, 9)])] + rng.sample(regs, 3)):
                exprs.append(f'(guess {check_expr(flit)} (conventions {to_coq(list(reg))} {to_coq(entry)}))')
                plans.append((d, label, ds, f, reg))
    model = coq_eval_sharded(['Model.Registry'], exprs, shard=max(30, len(exprs) // 14), workers=14)
    ctx.leg('detection_cases', len(exprs))
    for (d, label, ds, f, reg), mres in zip(plans, model):
        case = {'dataset': d.spec['label'], 'variant': label, 'registered': list(reg), 'features': f}
        with RegistrySnapshot():
            for i in reg:
                emsarray.conventions.register_convention(synth[i])
            with warnings.catch_warnings():
                warnings.simplefilter('ignore')
                r = attempt(get_dataset_convention, ds)
                again = attempt(get_dataset_convention, ds.copy(deep=True))
                # the documented order: manually registered classes in order of registration, then the entry points
                convs = []
                for c in [synth[i] for i in reg] + list(registry.entry_point_conventions):
                    if c not in convs:
                        convs.append(c)
                specs = []
                for c in convs:
                    s = attempt(c.check_dataset, ds)
                    specs.append((cls_id.get(c, 0), s[1] if s[0] == 'ok' else 'err'))
        matching = [(c, s) for c, s in specs if isinstance(s, int)]
        ctx.case((d.spec['label'], label, reg), len(matching) >= 2, sample=case if len(matching) >= 2 and len(ctx.samples) < 3 else None)
        ctx.count(f'family:{d.family}')
        ctx.count(f'variant:{"as generated" if label == "as generated" else "near miss"}')
        ctx.count(f'matching_classes:{len(matching)}')
        if r[0] != 'ok':
            ctx.report('property', f'get_dataset_convention failed: {r[1]}', case)
            continue
        got = None if r[1] is None else cls_id.get(r[1], 0)
        bad = None
        if again != r:
            bad = 'a deep copy of the dataset is detected differently'
        if matching:
            top = max(s for c, s in matching)
            first = next(c for c, s in matching if s == top)
            if got != first:
                bad = bad or (f'chose class {got}, but the most specific match listed first is {first} '
                              f'(matches in registry order: {matching})')
        elif got is not None:
            bad = bad or f'nothing matches but class {got} was chosen'
        # the statements the property makes about the built-in classes, on the dataset's content
        if got == 6 and not (f['ugrid_marker'] and f['mesh_var'] and f['topo_dim2']):
            bad = bad or 'UGrid chosen for a dataset without the Conventions marker and a 2-D mesh topology variable'
        if got in (2, 3) and f['ugrid_marker'] and f['mesh_var'] and f['topo_dim2'] and not any(
                isinstance(sp_, int) and sp_ > 10 for c_, sp_ in matching if c_ > 6):
            bad = bad or 'a generic CF grid class chosen for a dataset that carries the UGRID marker and a 2-D mesh topology variable'
        if got in (2, 3) and ((f['ems_version'] and f['has_ji']) or f['shoc_coords']):
            bad = bad or 'a generic CF grid class chosen for a dataset that carries the SHOC markers'
        if got is None:
            acc = attempt(lambda: ds.copy().ems)
            if acc[0] == 'ok':
                bad = bad or 'a dataset nothing matches was given a convention by the accessor'
        if bad:
            ctx.report('property', bad, case)
            continue
        want = None if got is None else Some(got)
        if mres != want:
            ctx.report('correspondence', f'model Registry.guess = {mres}, implementation chose {got} (per-class answers {specs})',
                       case, found_input=False)

    # ---------------- a single point picked out of a CF grid (isel on both surface dimensions): latitude and longitude are
    # scalar coordinates that still carry their units - no grid is left, and nothing may claim the dataset as one
    for fam in ('cf1d', 'cf1d', 'cf2d'):
        dpt = gen.any_dataset(rng, fam, **({} if fam == 'cf1d' else {'invalid': False, 'holes': 'none'}))
        gd = dpt.spec['kinds']['face']
        picked = dpt.ds.isel({g: 0 for g in gd})
        case = {'dataset': dpt.spec['label'], 'variant': 'one point picked with isel on both surface dimensions'}
        ctx.case((dpt.spec['label'], 'picked point'), True)
        ctx.count('scalar_coordinates')
        with warnings.catch_warnings():
            warnings.simplefilter('ignore')
            r = attempt(get_dataset_convention, picked)
        if r[0] == 'ok' and r[1] is not None and r[1].__name__ in ('CFGrid1D', 'CFGrid2D'):
            ctx.report('property', f'a dataset whose latitude and longitude are scalar coordinates is taken for a {r[1].__name__} grid', case)
    # ---------------- a dataset that is refused (its marker is missing), repaired in place, and asked again: the same object is
    # now handled by the convention its content calls for
    for rep_ in range(2):
        du = gen.ugrid(rng, w=2, h=2, invalid=False)
        fixed_ = du.ds.copy(deep=True)
        conv_attr = fixed_.attrs.pop('Conventions', None)
        saved_attrs = {}
        for v_ in list(fixed_.variables):
            # (nothing else may take the broken file for a grid: the CF markers of its coordinates are missing as well)
            saved_attrs[v_] = dict(fixed_[v_].attrs)
            fixed_[v_].attrs = {k_: x_ for k_, x_ in fixed_[v_].attrs.items() if k_ not in ('units', 'standard_name', 'axis')}
        rcase = {'dataset': du.spec['label'], 'history': 'ds.ems refused (no Conventions attribute), attribute put back on the same object, ds.ems again'}
        ctx.case((du.spec['label'], 'refused then repaired', rep_), True)
        ctx.count('refused_then_repaired_in_place')
        with warnings.catch_warnings():
            warnings.simplefilter('ignore')
            first_ = attempt(lambda: type(fixed_.ems))
            if first_[0] == 'ok':
                ctx.count('refused_then_repaired_in_place:not refused (skipped)')
                continue
            fixed_.attrs['Conventions'] = conv_attr
            for v_, at_ in saved_attrs.items():
                fixed_[v_].attrs = at_
            want_ = attempt(get_dataset_convention, fixed_)
            second_ = attempt(lambda: type(fixed_.ems))
        if want_[0] == 'ok' and want_[1] is not None and (second_[0] != 'ok' or second_[1] is not want_[1]):
            ctx.report('property', f'after the dataset was repaired in place its content calls for {want_[1].__name__}, dataset.ems gives '
                       f'{second_[1].__name__ if second_[0] == "ok" else second_[1]} (the first, refused attempt: {first_})', rcase)
    # ---------------- (A3) the accessor and the detection function agree, also on datasets derived from one that was opened
    # from a file and already given a convention (xarray keeps encoding['source'] on the derived datasets)
    import os
    import shutil
    import tempfile
    tmp3 = tempfile.mkdtemp(prefix='c11_file_', dir=os.environ.get('VERIF_WORK', '/verif/work'))
    try:
        for n in range(5 if quick else 20):
            d = gen.any_dataset(rng, gen.FAMILIES[n % len(gen.FAMILIES)])
            path = os.path.join(tmp3, f'a{n}.nc')
            enc = {v: {'_FillValue': None} for v in d.ds.variables if d.ds[v].dtype.kind == 'f' and '_FillValue' not in d.ds[v].attrs}
            with warnings.catch_warnings():
                warnings.simplefilter('ignore')
                try:
                    d.ds.to_netcdf(path, encoding=enc)
                    opened = xarray.open_dataset(path)
                    opened.load()
                    first = type(opened.ems)
                except Exception:       # noqa: BLE001
                    continue
            d_file = gen.DS(d.family, opened, d.spec)
            for label, ds in near_misses(rng, d_file):
                case = {'dataset': d.spec['label'], 'variant': label, 'kind': 'derived from a dataset opened from a file and already bound',
                        'bound first': first.__name__}
                ctx.case((d.spec['label'], 'from_file', label), True)
                ctx.count('from_file_then_derived')
                with warnings.catch_warnings():
                    warnings.simplefilter('ignore')
                    fresh = ds.copy()
                    want = attempt(get_dataset_convention, fresh)
                    acc = attempt(lambda: type(fresh.ems))
                if want[0] != 'ok':
                    continue
                # what is detected depends on the content, not on the file the dataset once came from
                with warnings.catch_warnings():
                    warnings.simplefilter('ignore')
                    plain_copy = ds.copy(deep=True)
                    plain_copy.encoding = {}
                    want_plain = attempt(get_dataset_convention, plain_copy)
                if want_plain[0] == 'ok' and want_plain[1] is not want[1]:
                    ctx.report('property', f'derived from an opened file this dataset is detected as '
                               f'{getattr(want[1], "__name__", None)}, the same content with no file behind it as '
                               f'{getattr(want_plain[1], "__name__", None)}', case)
                    continue
                if want[1] is None:
                    if acc[0] == 'ok':
                        ctx.report('property', f'nothing matches this dataset (get_dataset_convention gives None) but dataset.ems binds '
                                   f'{acc[1].__name__}', case)
                elif acc[0] != 'ok' or acc[1] is not want[1]:
                    ctx.report('property', f'dataset.ems binds {acc[1].__name__ if acc[0] == "ok" else acc[1]}, get_dataset_convention '
                               f'gives {want[1].__name__}', case)
            opened.close()
    finally:
        shutil.rmtree(tmp3, ignore_errors=True)

    # ---------------- (A2) conventions derived from the built-in ones: what a class matches depends on the dataset's content
    # and the class's own declaration only - not on which related class was registered or consulted first
    from emsarray.conventions.arakawa_c import ArakawaC, ArakawaCGridKind
    from emsarray.conventions.shoc import ShocStandard
    K = ArakawaCGridKind
    namings = {
        'standard': dict(zip(SHOC8, SHOC8)),
        'variant': {'y_centre': 'y_center', 'x_centre': 'x_center', 'y_left': 'y_west', 'x_left': 'x_west',
                    'y_back': 'y_south', 'x_back': 'x_south', 'y_grid': 'y_corner', 'x_grid': 'x_corner'},
        'plain': {'y_centre': 'lat_face', 'x_centre': 'lon_face', 'y_left': 'lat_left', 'x_left': 'lon_left',
                  'y_back': 'lat_back', 'x_back': 'lon_back', 'y_grid': 'lat_node', 'x_grid': 'lon_node'},
    }

    def derived_classes():
        def names(m):
            return {K.face: (m['y_centre'], m['x_centre']), K.left: (m['y_left'], m['x_left']),
                    K.back: (m['y_back'], m['x_back']), K.node: (m['y_grid'], m['x_grid'])}

        class ShocVariant(ShocStandard):
            coordinate_names = names(namings['variant'])

        class PlainArakawa(ArakawaC):
            coordinate_names = names(namings['plain'])

        class PlainChild(PlainArakawa):
            coordinate_names = names(namings['variant'])
        return {'ShocVariant': (ShocVariant, 'variant'), 'PlainArakawa': (PlainArakawa, 'plain'), 'PlainChild': (PlainChild, 'variant')}

    base = gen.any_dataset(rng, 'shoc_standard', nj=3, ni=3, holes='none', invalid=False).ds
    dsets = {k: base.rename({a: b for a, b in m.items() if a != b}) for k, m in namings.items()}
    orders = [p for r in (1, 2, 3) for p in itertools.permutations(['ShocVariant', 'PlainArakawa', 'PlainChild'], r)]
    visits = list(itertools.permutations(['standard', 'variant', 'plain'], 3))
    for reg in (orders if not quick else rng.sample(orders, 8)):
        for visit in (visits if not quick else rng.sample(visits, 3)):
            classes = derived_classes()            # fresh classes: nothing remembered from an earlier history
            case = {'registered': list(reg), 'datasets detected in this order': list(visit), 'kind': 'derived conventions'}
            ctx.case(('derived', reg, visit), True)
            ctx.count('derived_conventions')
            with RegistrySnapshot():
                for nm in reg:
                    emsarray.conventions.register_convention(classes[nm][0])
                listed = [classes[nm][0] for nm in reg] + list(registry.entry_point_conventions)
                # earlier in the same process: a convention constructed by hand on ANOTHER dataset, with coordinate names
                # given as a keyword (documented for ArakawaC and its subclasses) - no bearing on later detections
                pre = [None, 'ShocStandard', 'ArakawaC', 'ShocStandard+bind'][(len(reg) + visits.index(visit) + orders.index(reg)) % 4]
                case['constructed earlier with coordinate_names'] = pre
                if pre:
                    m = namings['variant' if pre.startswith('Shoc') else 'plain']
                    kwnames = {'face': (m['y_centre'], m['x_centre']), 'left': (m['y_left'], m['x_left']),
                               'back': (m['y_back'], m['x_back']), 'node': (m['y_grid'], m['x_grid'])}
                    other = dsets['variant' if pre.startswith('Shoc') else 'plain'].copy()
                    with warnings.catch_warnings():
                        warnings.simplefilter('ignore')
                        c0 = attempt(lambda: (ShocStandard if pre.startswith('Shoc') else ArakawaC)(other, coordinate_names=kwnames))
                        if c0[0] == 'ok' and pre.endswith('bind'):
                            attempt(c0[1].bind)
                    ctx.count(f'constructed_with_keyword:{pre}')
                for which in visit:
                    ds = dsets[which].copy()
                    # by content: an Arakawa class matches (HIGH = 30) exactly when all eight of ITS names are variables
                    want = None
                    for c in listed:
                        mine = next((nam for k_, (cl, nam) in classes.items() if cl is c), 'standard' if c is ShocStandard else None)
                        if mine is not None:
                            sp = 30 if all(v in ds.variables for v in namings[mine].values()) else None
                        else:
                            sp = attempt(c.check_dataset, ds)
                            sp = sp[1] if sp[0] == 'ok' else None
                        if sp is not None and (want is None or sp > want[1]):
                            want = (c, sp)
                    with warnings.catch_warnings():
                        warnings.simplefilter('ignore')
                        r = attempt(get_dataset_convention, ds)
                        acc = attempt(lambda: type(ds.ems))
                    got = r[1] if r[0] == 'ok' else f'error {r[1]}'
                    if got is not (want[0] if want else None):
                        ctx.report('property', f'the {which}-named dataset is given to {getattr(got, "__name__", got)}; by its content '
                                   f'the most specific class listed first is {want[0].__name__ if want else None}', case)
                        break
                    if want and (acc[0] != 'ok' or acc[1] is not want[0]):
                        ctx.report('property', f'dataset.ems of the {which}-named dataset binds {acc[1]}, detection says '
                                   f'{want[0].__name__}', case)
                        break

    # ---------------- (B) binding histories
    def sequences(maxlen, n0=1):
        """all op sequences whose targets exist when the op runs"""
        out = []

        def rec(prefix, nds):
            if prefix:
                out.append(list(prefix))
            if len(prefix) == maxlen:
                return
            for t in range(nds):
                rec(prefix + [('access', t)], nds)
                rec(prefix + [('bind_own', t)], nds)
                rec(prefix + [('copy', t)], nds + 1)
        rec([], n0)
        return out
    seqs = sequences(3 if quick else 4)
    for _ in range(60 if quick else 600):
        nds, s = 1, []
        for _ in range(rng.randint(5, 10)):
            t = rng.randrange(nds)
            k = rng.choice(['access', 'access', 'bind_own', 'bind_other', 'copy'])
            s.append((k, t))
            if k == 'copy':
                nds += 1
        seqs.append(s)
    bases = []
    d1 = gen.any_dataset(rng, 'cf2d')
    bases.append(('cf2d', d1.ds, 3, 2))            # detected class CFGrid2D, another class to bind: CFGrid1D
    d2 = gen.any_dataset(rng, 'ugrid')
    bases.append(('ugrid', d2.ds, 6, 3))
    blank = xarray.Dataset({'v': (('a', 'b'), numpy.zeros((2, 2)))})
    bases.append(('undetectable', blank, None, 3))
    exprs, plans = [], []
    for bname, bds, detected, other in bases:
        g = f'(fun _ => {"None" if detected is None else f"Some {detected}"})'
        own = detected if detected is not None else 2
        for s in seqs:
            ops = []
            for k, t in s:
                if k == 'access':
                    ops.append(Ctor('Access', t))
                elif k == 'bind_own':
                    ops.append(Ctor('Bind', t, own))
                elif k == 'bind_other':
                    ops.append(Ctor('Bind', t, other))
                else:
                    ops.append(Ctor('Copy', t))
            exprs.append(f'(snd (run {g} (init 1) {to_coq(ops)}))')
            plans.append((bname, bds, own, other, s))
    model = coq_eval_sharded(['Model.Registry'], exprs, shard=max(40, len(exprs) // 14), workers=14)
    ctx.leg('binding_histories', len(exprs))
    for (bname, bds, own, other, s), mres in zip(plans, model):
        datasets = [bds.copy()]
        objects = []          # kept alive: identity = index
        outs = []
        bad = None
        bound_obj = {}        # dataset index -> object (what the property says must be stable)

        def obj_index(o):
            for k, x in enumerate(objects):
                if x is o:
                    return k
            objects.append(o)
            return len(objects) - 1
        with warnings.catch_warnings():
            warnings.simplefilter('ignore')
            for k, t in s:
                ds = datasets[t]
                if k == 'access':
                    r = attempt(lambda: ds.ems)
                    if r[0] == 'ok':
                        outs.append(Ctor('OObj', obj_index(r[1]), cls_id.get(type(r[1]), 0)))
                        if t in bound_obj and bound_obj[t] is not r[1]:
                            bad = bad or f'dataset {t}: access returned another object than the one attached earlier'
                        bound_obj.setdefault(t, r[1])
                        if r[1].dataset is not ds:
                            bad = bad or f'dataset {t}: the convention returned belongs to another dataset'
                    else:
                        outs.append(Ctor('OUnknown'))
                elif k in ('bind_own', 'bind_other'):
                    cls = id_cls[own if k == 'bind_own' else other]
                    conv = cls(ds)
                    idx = obj_index(conv)
                    r = attempt(conv.bind)
                    if r[0] == 'ok':
                        outs.append(Ctor('OObj', idx, cls_id[cls]))
                        if t in bound_obj:
                            bad = bad or f'dataset {t}: a second attachment was accepted'
                        bound_obj[t] = conv
                    else:
                        outs.append(Ctor('ORefused'))
                        if t not in bound_obj:
                            bad = bad or f'dataset {t}: attachment refused although nothing was attached'
                else:
                    datasets.append(ds.copy())
                    outs.append(Ctor('ONewDataset', len(datasets) - 1))
            # whatever was attached by hand during the history, detection still answers from the content of each dataset
            fresh = attempt(get_dataset_convention, bds.copy())
            for t, ds in enumerate(datasets):
                r = attempt(get_dataset_convention, ds)
                if r != fresh:
                    bad = bad or (f'dataset {t}: get_dataset_convention answers {getattr(r[1], "__name__", r[1])} after this history, '
                                  f'{getattr(fresh[1], "__name__", fresh[1])} for a fresh dataset with the same content')
        case = {'base': bname, 'ops': [f'{k} {t}' for k, t in s]}
        interesting = any(k == 'copy' for k, t in s) or sum(1 for k, t in s if k.startswith('bind')) >= 1
        ctx.case((bname, tuple(s)), interesting, sample=case if interesting and len(ctx.samples) < 4 else None)
        ctx.count(f'history_length:{len(s)}')
        if bad:
            ctx.report('property', bad, case, impl=str(outs))
        elif outs != mres:
            ctx.report('correspondence', f'model Registry.run gives {mres}, implementation {outs}', case, found_input=False)
