"""C12 - ocean floor extraction returns the deepest valid value of every water column."""
import itertools
import warnings

import numpy
import xarray

import emsarray  # noqa: F401
from emsarray.operations import depth as depth_ops
from coqio import Some, coq_eval_sharded, to_coq
import gen
import polymodel as pm
from hutil import attempt
from props.c13 import coord_literal


def col_literal(col):
    return '[' + '; '.join('None' if x != x else f'(Some ({int(x)}))' for x in col) + ']'


def make_dataset(rng, fam, crossing=False, layers=None):
    d = gen.any_dataset(rng, fam)
    ds = d.ds
    if rng.random() < 0.3:
        ds = gen.label_dimensions(rng, ds, list(d.spec['kinds']['face']))      # unsorted labels on the horizontal dimensions
    # SHOC conventions find their depth coordinates by fixed names
    nm1, nm2, sed = {'shoc_standard': ('z_centre', 'z_grid', 'z_centre_sed'),
                     'shoc_simple': ('zc', None, 'zcsed')}.get(d.family, (None, None, 'ksed_centre'))
    tname = gen.TIME_NAMES.get(d.family, 'time')
    two = rng.random() < 0.4 and d.family != 'shoc_simple'
    if layers:
        # a tall water column: more layers than a byte can count
        ds, sp1 = gen.add_depth(rng, ds, dim='k', name=nm1, second=False, n=layers)
    elif crossing:
        # an unlabelled axis of heights about a datum inside the column: most values on one side of zero, their mean on the other
        ds, sp1 = gen.add_depth(rng, ds, dim='k', name=nm1, second=False, positive='none', crossing=True, n=rng.randint(3, 5))
    elif rng.random() < 0.25:
        # depths stored as whole numbers in an unsigned type (positive down, as such a type requires)
        ds, sp1 = gen.add_depth(rng, ds, dim='k', name=nm1, second=False, int_dtype=rng.choice(['u2', 'u1']), up=False, positive='attr')
    else:
        ds, sp1 = gen.add_depth(rng, ds, dim='k', name=nm1, second=two, second_name=nm2)
    specs = [sp1]
    if rng.random() < 0.5:
        # a second depth dimension with its own coordinate (e.g. sediment layers)
        ds, sp2 = gen.add_depth(rng, ds, dim='ksed', name=sed, second=False)
        specs.append(sp2)
    nt = rng.randint(1, 2)
    # a decoded time coordinate (the conventions look for datetime64 values with encoded units)
    tvals = numpy.array(['1990-01-01T00:00', '1990-01-02T12:00'][:nt], dtype='datetime64[ns]')
    tda = xarray.DataArray(tvals, dims=['record'], attrs={'standard_name': 'time', 'coordinate_type': 'time'})
    tda.encoding['units'] = 'days since 1990-01-01 00:00:00 +10'
    ds = ds.assign_coords({tname: tda})
    kinds = d.spec['kinds']
    variables = []     # (name, depth spec or None)
    counter = 1
    for sp in specs:
        for kind, gdims in kinds.items():
            if rng.random() < (0.9 if kind == 'face' else 0.4):
                nvars = rng.randint(1, 2)
                # static sea floor for this (depth dimension, grid): number of wet layers per location, 0..n
                gshape = [ds.sizes[g] for g in gdims]
                mode = rng.choice(['random', 'random', 'all_wet', 'with_dry', 'gaps'])
                wet = numpy.array([rng.randint(0, sp['n']) for _ in range(int(numpy.prod(gshape)))]).reshape(gshape)
                if mode == 'all_wet':
                    wet[...] = sp['n']
                elif mode == 'with_dry':
                    wet.reshape(-1)[rng.randrange(wet.size)] = 0
                gap = numpy.zeros(gshape, dtype=int) - 1
                if mode == 'gaps':
                    for k in range(wet.size):
                        if wet.reshape(-1)[k] >= 2:
                            gap.reshape(-1)[k] = rng.randrange(wet.reshape(-1)[k] - 1)
                for v in range(nvars):
                    dims = [sp['dim']] + list(gdims) + (['record'] if rng.random() < 0.6 else [])
                    rng.shuffle(dims)
                    shape = [ds.sizes.get(x, sp['n'] if x == sp['dim'] else nt) for x in dims]
                    n = int(numpy.prod(shape))
                    data = (numpy.arange(n, dtype='f8') + counter).reshape(shape)
                    if (v + len(variables)) % 2 == 1:
                        # values below zero (velocities, temperatures in polar water, heights below datum)
                        data = -data - 2.0
                    counter += n + 5
                    da = xarray.DataArray(data, dims=dims)
                    # blank below the floor, in physical order
                    lev = xarray.DataArray(numpy.arange(sp['n']), dims=[sp['dim']])
                    phys_level = (sp['n'] - 1 - lev) if sp['deep_first'] else lev
                    wet_da = xarray.DataArray(wet, dims=list(gdims))
                    gap_da = xarray.DataArray(gap, dims=list(gdims))
                    da = da.where((phys_level < wet_da) & (phys_level != gap_da))
                    name = f'd_{sp["dim"]}_{kind}_{v}'
                    ds[name] = da.transpose(*dims)
                    variables.append((name, sp, kind, mode))
    # a coordinate that runs along the depth dimension and the surface dimensions (cell thickness, a sigma-to-depth table):
    # it is a variable with a depth dimension like any other
    face_vars = [(nm, sp_, kd, md) for nm, sp_, kd, md in variables if kd == 'face']
    if face_vars and rng.random() < 0.5:
        nm, sp_, kd, md = face_vars[0]
        cname = f'thickness_{sp_["dim"]}'
        ds = ds.assign_coords({cname: (ds[nm].dims, ds[nm].values + 100000.0)})
        variables.append((cname, sp_, kd, md))
    # variables that lie along a depth dimension and nothing horizontal (layer thicknesses, a profile per record): they have
    # no horizontal location to reduce at
    for sp in specs:
        if rng.random() < 0.5:
            ds[f'dz_{sp["dim"]}'] = xarray.DataArray(numpy.arange(sp['n'], dtype='f8') + 0.25, dims=[sp['dim']])
        if rng.random() < 0.4:
            ds[f'profile_{sp["dim"]}'] = xarray.DataArray(numpy.arange(nt * sp['n'], dtype='f8').reshape(nt, sp['n']) + 0.75,
                                                          dims=['record', sp['dim']])
    # variables without a depth dimension
    ds['eta'] = xarray.DataArray(numpy.arange(nt * ds.sizes[kinds['face'][0]], dtype='f8').reshape(nt, -1) + 0.5,
                                 dims=['record', kinds['face'][0]]) if len(kinds['face']) == 1 else \
        xarray.DataArray(numpy.arange(int(numpy.prod([ds.sizes[g] for g in kinds['face']])), dtype='f8').reshape(
            [ds.sizes[g] for g in kinds['face']]) + 0.5, dims=list(kinds['face']))
    return d, ds, specs, variables, tname


def run(ctx):
    rng = ctx.rng
    quick = ctx.tier == 'quick'
    ctx.rule = ('datasets of every convention with one or two depth dimensions, each stored positive up/down x deep-first / '
                'surface-first, positive attribute present or guessed, with/without bounds; variables on every grid kind with the '
                'depth dimension in any position, with or without a time dimension; static sea floors with 0..all wet layers per '
                'column, fully dry columns and gaps; through operations.depth.ocean_floor and dataset.ems.ocean_floor. One case = '
                'one variable; non-trivial = its columns have at least two different floor depths; distinct by variable content')
    n_ds = 30 if quick else 200
    exprs, plans = [], []
    plan_exprs, plan_plans = [], []
    for n in range(n_ds):
        fam = rng.choice(['cf1d', 'cf2d', 'shoc_simple', 'shoc_standard', 'ugrid'])
        d, ds, specs, variables, tname = make_dataset(rng, fam, crossing=(n % 5 == 3), layers=(300 if n == 6 else None))
        ctx.count(f'axis crossing zero, unlabelled:{n % 5 == 3}')
        via_ems = rng.random() < 0.5
        # as read from a netCDF-4 file in which a horizontal dimension is unlimited too (tiles concatenated along it):
        # xarray records that in the dataset's encoding; it says nothing about the sea floor
        if n % 2 == 0:
            hdim = rng.choice(list(d.spec['kinds']['face']))
            ds.encoding['unlimited_dims'] = {'record', hdim}
            ctx.count('encoding:horizontal dimension unlimited')
        # another coordinate along the depth dimension that is not a depth (a layer number): it goes with the dimension
        aux = n % 3 != 2
        if aux:
            # (numbered from the bottom when the file lists the sea bed first; labelled with a CF standard name that is not a depth)
            lay = numpy.arange(specs[0]['n'], dtype='i4') + 1
            ds = ds.assign_coords(layer_number=(specs[0]['dim'], lay, {
                'long_name': 'layer number', 'standard_name': rng.choice(['model_level_number', 'ocean_sigma_coordinate', 'altitude', 'height'])}))
            ds.encoding = dict(ds.encoding)
        ctx.count(f'auxiliary coordinate on the depth dimension:{aux}')
        ctx.count(f'family:{d.family}')
        ctx.count(f'depth_dimensions:{len(specs)}')
        ctx.count(f'coords_on_first_depth_dim:{len(specs[0]["coords"])}')
        ctx.count(f'via_accessor:{via_ems}')
        before = ds.copy(deep=True)
        names = [c['name'] for sp in specs for c in sp['coords']]
        case0 = {'dataset': d.spec['label'], 'depths': [{k: sp[k] for k in ('dim', 'n', 'up', 'deep_first', 'phys')} for sp in specs],
                 'via_accessor': via_ems}
        with warnings.catch_warnings():
            warnings.simplefilter('ignore')
            if via_ems:
                got_names = sorted(c.name for c in ds.ems.depth_coordinates)
                if got_names != sorted(names):
                    ctx.report('property', f'depth coordinates detected {got_names}, dataset has {sorted(names)}', case0)
                    continue
                call_names = [c.name for c in ds.ems.depth_coordinates]
                r = attempt(lambda: ds.ems.ocean_floor())
            else:
                call_names = names
                # with the time coordinate named as non-spatial, or (every other dataset) with that argument left at its default
                if n % 4 == 1:
                    ctx.count('function called without non_spatial_variables')
                    r = attempt(lambda: depth_ops.ocean_floor(ds, names))
                else:
                    r = attempt(lambda: depth_ops.ocean_floor(ds, names, non_spatial_variables=[tname]))
        if r[0] != 'ok':
            ctx.report('property', f'ocean_floor failed: {r[1]}', case0)
            continue
        out = r[1]
        bad = None
        depth_dims = {sp['dim'] for sp in specs}
        if depth_dims & set(out.dims):
            bad = f'depth dimensions {depth_dims & set(out.dims)} still present'
        for nm in names:
            if nm in out.variables:
                bad = bad or f'depth coordinate {nm} still present'
        # everything without a depth dimension is left as it was
        for vn in before.variables:
            if not (set(before[vn].dims) & depth_dims):
                # (compared as variables: which coordinates xarray attaches to a variable follows from the dimensions the
                # coordinates have, and those of the depth dimension lose it)
                if vn not in out.variables or not before[vn].variable.identical(out[vn].variable):
                    bad = bad or f'variable {vn} has no depth dimension but was changed or dropped'
        # nothing that lay along a depth dimension survives in another shape, no variable gains coordinates it did not have
        floored_names = {nm_ for nm_, _, _, _ in variables}
        for cn in out.coords:
            if cn in before.coords and set(before[cn].dims) & depth_dims and str(cn) not in floored_names:
                bad = bad or f'coordinate {cn} lay along the depth dimension and is still present, now on {out[cn].dims}'
        for vn in out.data_vars:
            if vn in before.data_vars:
                gained = set(map(str, out[vn].coords)) - set(map(str, before[vn].coords)) - floored_names
                if gained:
                    bad = bad or f'variable {vn} gained the coordinates {sorted(gained)}'
        if not bad and not ds.identical(before):
            bad = 'the input dataset was modified'
        if not bad:
            try:
                p0, p1 = pm.impl_polygons(before.ems), pm.impl_polygons(out.ems)
                if p0 != p1:
                    bad = 'polygons changed'
            except Exception as e:       # noqa: BLE001
                import traceback
                bad = f'result has no usable geometry: {type(e).__name__}: ' + traceback.format_exc()[-900:]
        if bad:
            ctx.report('property', bad, case0)
            continue
        # ---- which variables are reduced, which are left, which go with the dimension: model FloorPlan
        # (every variable of the dataset in dataset order - coordinates along a depth dimension are reduced like data variables;
        # the bounds of the depth coordinates are named: they describe the axis and go with it)
        dim_ids = {str(x): i for i, x in enumerate(before.dims)}
        var_ids = {str(x): 100 + i for i, x in enumerate(before.variables)}
        ns_dims = [] if (not via_ems and n % 4 == 1) else [dim_ids[str(x)] for x in before[tname].dims]
        skip_ids = [var_ids[str(before[nm_].attrs['bounds'])] for nm_ in names if before[nm_].attrs.get('bounds') in before.variables]
        vlit = '[' + '; '.join(f'{{| v_name := {var_ids[str(x)]}; v_dims := {to_coq([dim_ids[str(y)] for y in before[x].dims])} |}}'
                               for x in before.variables) + ']'
        plan_exprs.append(f'(show_plan (plan {to_coq(sorted(dim_ids[x] for x in depth_dims))} {to_coq(ns_dims)} {to_coq(skip_ids)} {vlit}))')
        impl_plan = []
        for x in before.variables:
            if str(x) not in out.variables:
                impl_plan.append((var_ids[str(x)], None))
            else:
                impl_plan.append((var_ids[str(x)], Some(sorted(dim_ids[str(y)] for y in out[x].dims))))
        plan_plans.append((dict(case0, variables={str(x): list(map(str, before[x].dims)) for x in before.variables}), impl_plan))
        ctx.count(f'plan:data variables={min(len(var_ids), 6)}{"+" if len(var_ids) >= 6 else ""}')
        for name, sp, kind, mode in variables:
            vin = before[name]
            case = dict(case0, variable=name, dims=list(vin.dims), floor_mode=mode)
            if name not in out.variables:
                ctx.report('property', f'variable {name} dropped', case)
                continue
            vout = out[name]
            other = [x for x in vin.dims if x != sp['dim']]
            if sorted(vout.dims) != sorted(other):
                ctx.report('property', f'{name}: dims {vout.dims}, expected {other}', case)
                continue
            vout = vout.transpose(*other)        # values are compared under their labels; the order of dimensions is free
            cols_in = vin.transpose(*other, sp['dim']).values.reshape(-1, sp['n'])
            flat_out = vout.values.reshape(-1)
            # expected directly: deepest (physically) valid value per column
            bad = None
            floors = set()
            for col, got in zip(cols_in, flat_out):
                phys_col = col[::-1] if sp['deep_first'] else col
                valid = [x for x in phys_col if x == x]
                floors.add(len(valid))
                want = valid[-1] if valid else float('nan')
                if not (got == want or (got != got and want != want)):
                    bad = (f'{name}: column {col.tolist()} (stored {"deep first" if sp["deep_first"] else "surface first"}) '
                           f'reduced to {got}, deepest valid value is {want}')
                    break
            ctx.case((name, vin.values.tobytes().hex()[:64], sp['up'], sp['deep_first'], tuple(vin.dims)), len(floors) >= 2,
                     sample=dict(case, first_column=cols_in[0].tolist(), reduced=float(flat_out[0])
                                 if flat_out[0] == flat_out[0] else None) if len(floors) >= 2 else None)
            ctx.count(f'floor_mode:{mode}')
            ctx.count(f'stored:up={sp["up"]},deep_first={sp["deep_first"]}')
            ctx.count(f'depth_axis_position:{list(vin.dims).index(sp["dim"])}of{len(vin.dims)}')
            if bad:
                ctx.report('property', bad, case)
                continue
            # the coordinates of this depth dimension in the order the call receives them
            order = [nm for nm in call_names if nm in {c['name'] for c in sp['coords']}]
            clit = '[' + '; '.join(coord_literal(before, nm) for nm in order) + ']'
            exprs.append(f'(map (@ocean_floor_cols Z {clit}) [' + '; '.join(col_literal(c) for c in cols_in) + '])')
            plans.append((case, flat_out))
    model = coq_eval_sharded(['Model.Depth'], exprs, shard=8, workers=14)
    ctx.leg('coq_eval_variables', len(exprs))
    mplans = coq_eval_sharded(['Model.FloorPlan'], plan_exprs, shard=10, workers=6)
    ctx.leg('reduction_plans', len(plan_exprs))
    for (pcase, impl_plan), mp in zip(plan_plans, mplans):
        # model rows: (name, (action code, depth dimension, reference), dims or None); a floored or untouched variable is in the
        # result with the model's dimensions, a dropped one is not
        # (the order of the dimensions within a variable is xarray's business - vectorised indexing moves them - and no part of
        # the property: compared as sets)
        want = [(int(nm), None if dims is None else Some(sorted(dims.v))) for (nm, _act), dims in mp]
        if want != impl_plan:
            k = next(i for i, (a, b) in enumerate(zip(want, impl_plan)) if a != b)
            ctx.report('correspondence', f'variable {want[k][0]} (numbered from 100 in dataset order): the result holds it with dimensions {impl_plan[k][1]}, model '
                       f'FloorPlan.plan says {want[k][1]} (None: not in the result)', pcase, found_input=False)
    ctx.leg('coq_eval_columns', sum(len(p[1]) for p in plans))
    for (case, flat_out), mres in zip(plans, model):
        impl = [Some(None if x != x else Some(int(x))) for x in flat_out]
        if impl != mres:
            k = next(i for i, (a, b) in enumerate(zip(impl, mres)) if a != b)
            ctx.report('correspondence', f'model Depth.ocean_floor_col and implementation differ at column {k}: '
                       f'impl {impl[k]} model {mres[k]}', case, found_input=False)
    depth_coordinate_leg(ctx)


# ---- which variables are the depth coordinates: model DepthCoord --------------------------------------------------------
POSITIVE_POOL = [None, None, None, 'up', 'down', 'Up', 'DOWN', 'dOwN', 'upward', '', 'downwards']
AXIS_POOL = [None, None, None, 'Z', 'z', 'X', 'T']
CTYPE_POOL = [None, None, None, 'Z', 'z', 'time']
SNAME_POOL = [None, None, None, 'depth', 'Depth', 'height', 'depth_below_geoid', 'sea_floor_depth']
SHOC_FIXED = {'shoc_standard': ['z_centre', 'z_grid', 'z_centre_sed', 'z_grid_sed'], 'shoc_simple': ['zc', 'zcsed']}


def _str_lit(s):
    return 'None' if s is None else '(Some ' + to_coq([ord(ch) for ch in s]) + ')'


def depth_coordinate_leg(ctx):
    """Convention.depth_coordinates / depth_coordinate / get_depth_coordinate_for_data_array / get_grid_kind against
    Model.DepthCoord on datasets carrying variables with every mixture of the five markers, on and off the grids."""
    from emsarray.exceptions import NoSuchCoordinateError
    rng = ctx.rng
    n_ds = 40 if ctx.tier == 'quick' else 300
    exprs, plans = [], []
    for n in range(n_ds):
        fam = ['cf1d', 'cf2d', 'shoc_simple', 'shoc_standard', 'ugrid', 'arakawa'][n % 6]
        d = gen.arakawa(rng, shoc=False) if fam == 'arakawa' else gen.any_dataset(rng, fam)
        ds = d.ds
        ddims = {'k': rng.randint(2, 4), 'ksed': rng.randint(2, 4), 'kk': rng.randint(2, 4)}
        if rng.random() < 0.4:
            ddims['ksed'] = ddims['k']         # two axes of the same length: the default coordinate is the first of them
        hdims = [str(x) for x in ds.dims]
        names = ['botz', 'lev', 'lev_i', 'sed', 'aux1', 'aux2', 'aux3', 'aux4'] + rng.sample(
            SHOC_FIXED.get(d.family, SHOC_FIXED['shoc_standard'] + SHOC_FIXED['shoc_simple']), 2)
        rng.shuffle(names)
        for nm in names[:rng.randint(3, len(names))]:
            shape_kind = rng.choice(['depth', 'depth', 'depth', 'grid', 'grid+depth', 'depth2', 'other', 'scalar'])
            gd = list(rng.choice(list(ds.ems.grid_dimensions.values())))
            if shape_kind == 'depth':
                dims = [rng.choice(list(ddims))]
            elif shape_kind == 'grid':
                dims = gd
            elif shape_kind == 'grid+depth':
                dims = gd + [rng.choice(list(ddims))]
                rng.shuffle(dims)
            elif shape_kind == 'depth2':
                dims = rng.sample(list(ddims), 2)
            elif shape_kind == 'other':
                dims = [rng.choice(hdims)] + ([rng.choice(list(ddims))] if rng.random() < 0.5 else [])
            else:
                dims = []
            shape = [ddims.get(x, ds.sizes.get(x)) for x in dims]
            attrs = {}
            for key, pool in (('positive', POSITIVE_POOL), ('axis', AXIS_POOL), ('cartesian_axis', AXIS_POOL),
                              ('coordinate_type', CTYPE_POOL), ('standard_name', SNAME_POOL)):
                val = rng.choice(pool)
                if val is not None:
                    attrs[key] = val
            da = xarray.DataArray(numpy.arange(int(numpy.prod(shape)), dtype='f8').reshape(shape) + 1.0, dims=dims, attrs=attrs)
            if dims and rng.random() < 0.4:
                ds = ds.assign_coords({nm: da})
            else:
                ds[nm] = da
        # some arrays to ask about that are not in the dataset
        for k in range(2):
            dims = rng.sample(list(ddims), rng.randint(1, 2)) + list(rng.choice(list(ds.ems.grid_dimensions.values())))
            rng.shuffle(dims)
            ds[f'q{k}'] = xarray.DataArray(numpy.zeros([ddims.get(x, ds.sizes.get(x)) for x in dims]), dims=dims)
        ds = xarray.Dataset(ds.variables, attrs=ds.attrs).set_coords([c for c in ds.coords]) if n % 4 == 3 else ds
        conv = ds.ems
        dim_ids = {str(x): i for i, x in enumerate(ds.dims)}
        vnames = [str(v) for v in ds.variables]
        kinds = list(conv.grid_dimensions.items())
        glit = to_coq([tup2(i, [dim_ids[str(x)] for x in dims]) for i, (_k, dims) in enumerate(kinds)])
        vlits = []
        for i, v in enumerate(vnames):
            a = ds[v]
            vlits.append('{| dv_name := %d; dv_dims := %s; dv_sizes := %s; a_positive := %s; a_axis := %s; a_cartesian_axis := %s; '
                         'a_coordinate_type := %s; a_standard_name := %s |}' % (
                             i, to_coq([dim_ids[str(x)] for x in a.dims]), to_coq([int(s) for s in a.shape]),
                             _str_lit(a.attrs.get('positive')), _str_lit(a.attrs.get('axis')), _str_lit(a.attrs.get('cartesian_axis')),
                             _str_lit(a.attrs.get('coordinate_type')), _str_lit(a.attrs.get('standard_name'))))
        vlit = '[' + '; '.join(vlits) + ']'
        arrays = [[dim_ids[str(x)] for x in ds[v].dims] for v in vnames]
        fixed = SHOC_FIXED.get(d.family)
        case = {'dataset': d.spec['label'], 'family': fam, 'variables': {
            v: {'dims': list(map(str, ds[v].dims)), 'attrs': {k: ds[v].attrs[k] for k in (
                'positive', 'axis', 'cartesian_axis', 'coordinate_type', 'standard_name') if k in ds[v].attrs}} for v in vnames}}
        with warnings.catch_warnings():
            warnings.simplefilter('ignore')
            got_all = attempt(lambda: [vnames.index(str(c.name)) for c in conv.depth_coordinates])
            try:
                got_default = ('ok', vnames.index(str(conv.depth_coordinate.name)))
            except NoSuchCoordinateError:
                got_default = ('ok', None)
            except Exception as e:      # noqa: BLE001
                got_default = ('err', type(e).__name__)
            got_for = []
            for j, v in enumerate(vnames):
                arg = v if j % 2 else ds[v]
                try:
                    got_for.append((0, vnames.index(str(conv.get_depth_coordinate_for_data_array(arg).name))))
                except NoSuchCoordinateError:
                    got_for.append((1, -1))
                except ValueError:
                    got_for.append((2, -1))
                except Exception as e:      # noqa: BLE001
                    got_for.append((9, type(e).__name__))
            got_kinds = []
            kind_keys = [k for k, _ in kinds]
            for v in vnames:
                try:
                    got_kinds.append(Some(kind_keys.index(conv.get_grid_kind(ds[v]))))
                except ValueError:
                    got_kinds.append(None)
        if fixed is None:
            exprs.append(f'(observe {glit} {vlit} {to_coq(arrays)})')
        else:
            # SHOC looks its depth coordinates up by name; the per-array question and the grid kinds are the generic code
            flit = to_coq([vnames.index(x) if x in vnames else 9000 + i for i, x in enumerate(fixed)])
            exprs.append(f'(shoc_depth_coordinates {flit} {vlit}, shoc_depth_coordinate {flit} {vlit}, '
                         f'map (fun v => grid_kind {glit} (dv_dims v)) {vlit})')
        plans.append((case, fixed is not None, got_all, got_default, got_for, got_kinds))
        found = got_all[1] if got_all[0] == 'ok' else []
        ctx.count(f'depth_coordinate_leg:family={fam}')
        ctx.count(f'depth_coordinate_leg:coordinates found={min(len(found), 4)}')
        ctx.count(f'depth_coordinate_leg:answers per array={sorted({g[0] for g in got_for})}')
        # direct statements of what the answers mean (no model needed): every detected coordinate lies on no grid; the default is
        # one of them and none is smaller; the coordinate named for an array has only dimensions the array has
        if fixed is not None:
            # (SHOC files name their layer-centre coordinate: it is the default whenever present, whatever else is there)
            if got_default != ('ok', vnames.index(fixed[0]) if fixed[0] in vnames else None):
                ctx.report('property', f'SHOC default depth coordinate {got_default}, the file has {fixed[0]}: {fixed[0] in vnames}', case)
        elif got_all[0] == 'ok' and got_default[0] == 'ok':
            if fixed is None and any(got_kinds[i] is not None for i in found):
                ctx.report('property', f'a variable on a grid is listed among the depth coordinates: {[vnames[i] for i in found]}', case)
            if (got_default[1] is None) != (not found) or (found and got_default[1] not in found):
                ctx.report('property', f'default depth coordinate {got_default[1]} with depth coordinates {found}', case)
            elif found and any(ds[vnames[i]].size < ds[vnames[got_default[1]]].size for i in found):
                ctx.report('property', f'default depth coordinate {vnames[got_default[1]]} is not the smallest of '
                           f'{[vnames[i] for i in found]}', case)
            for v, g in zip(vnames, got_for):
                if g[0] == 0 and not set(ds[vnames[g[1]]].dims) <= set(ds[v].dims):
                    ctx.report('property', f'{v} {ds[v].dims} is given the depth coordinate {vnames[g[1]]} {ds[vnames[g[1]]].dims}', case)
    model = coq_eval_sharded(['Model.DepthCoord'], exprs, shard=10, workers=8)
    ctx.leg('depth_coordinate_cases', len(exprs))
    for (case, is_shoc, got_all, got_default, got_for, got_kinds), m in zip(plans, model):
        if is_shoc:
            (m_all, m_default), m_kinds = m
            want = (('ok', [int(x) for x in m_all]), ('ok', None if m_default is None else int(m_default.v)))
            got = (got_all, got_default)
        else:
            ((m_all, m_default), m_for), m_kinds = m
            want = (('ok', [int(x) for x in m_all]), ('ok', None if m_default is None else int(m_default.v)),
                    [(int(a), int(b)) for a, b in m_for])
            got = (got_all, got_default, got_for)
        m_kinds = [None if k is None else Some(int(k.v)) for k in m_kinds]
        if want != got:
            ctx.report('correspondence', f'model DepthCoord: depth coordinates / default / per array = {want}, implementation {got} '
                       f'(variables numbered in dataset order)', case, found_input=False)
        elif m_kinds != got_kinds:
            ctx.report('correspondence', f'model DepthCoord.grid_kind = {m_kinds}, implementation get_grid_kind {got_kinds}', case,
                       found_input=False)


def tup2(a, b):
    from coqio import tup
    return tup(a, b)
