"""C06 - cell polygons and dataset extent are faithful to the dataset's coordinates."""
import warnings
from fractions import Fraction

import numpy
import shapely

import emsarray  # noqa: F401
from emsarray.exceptions import InvalidPolygonWarning
from coqio import Some, coq_eval_sharded, to_coq
import gen
import polymodel as pm
from hutil import attempt


def variants(rng, d):
    """the same dataset with its coordinate / bounds variables held the other way"""
    out = [('as_generated', d.ds)]
    ds = d.ds
    if d.family in ('cf1d', 'cf2d', 'shoc_simple') and d.spec['bounds']:
        names = [n for n in ('lat_bnds', 'lon_bnds') if n in ds.data_vars]
        if names:
            out.append(('bounds_as_coords', ds.set_coords(names)))
    if d.family == 'ugrid':
        names = [n for n in ('Mesh2_node_x', 'Mesh2_node_y', 'Mesh2_face_x', 'Mesh2_face_y') if n in ds.variables]
        if d.spec['coords_as_coords']:
            out.append(('coords_as_variables', ds.reset_coords(names)))
        else:
            out.append(('coords_as_coords', ds.set_coords(names)))
    if d.family in ('cf2d', 'shoc_simple'):
        names = [d.spec['latname'], d.spec['lonname']]
        if d.spec['as_coords']:
            out.append(('coords_as_variables', ds.reset_coords(names)))
        else:
            out.append(('coords_as_coords', ds.set_coords(names)))
    return out


def bounds_tuple(mb):
    if mb is None:
        return None
    ((a, b), c), d = mb.v
    return tuple(float(Fraction(*x)) for x in (a, b, c, d))


def close(a, b):
    return a == b or (a != a and b != b)


def dedupe(r):
    out = []
    for p in r:
        if not out or out[-1] != p:
            out.append(p)
    while len(out) > 1 and out[0] == out[-1]:
        out.pop()
    return out


def same_ring(ip, mp):
    if (ip is None) != (mp is None):
        return False
    if ip is None:
        return True
    # repeated consecutive points are not significant (shapely closes a ring that is already closed)
    ip, mp = dedupe(ip), dedupe(mp)
    return len(ip) == len(mp) and all(close(a[0], b[0]) and close(a[1], b[1]) for a, b in zip(ip, mp))


def bounds_name_leg(ctx):
    """utils.get_bounds_name against Model.BoundsName, and the model's reading of decode_coords='all' against what xarray does"""
    import os
    import tempfile
    import xarray
    from emsarray import utils
    names = {1: 'lat_bnds', 2: 'b', 3: 'other bounds'}
    combos = [(a, e) for a in (None, 1, 2, 3) for e in (None, 1, 2, 3)]
    exprs = [f'(get_bounds_name {{| attr_bounds := {to_coq(None if a is None else Some(a))}; enc_bounds := {to_coq(None if e is None else Some(e))} |}})'
             for a, e in combos]
    model = coq_eval_sharded(['Model.BoundsName'], exprs, shard=16)
    ctx.leg('bounds name lookups', len(exprs))
    back = {v: k for k, v in names.items()}
    for (a, e), m in zip(combos, model):
        var = xarray.Variable(['x'], numpy.arange(3.0), {} if a is None else {'bounds': names[a]})
        if e is not None:
            var.encoding['bounds'] = names[e]
        case = {'attrs bounds': None if a is None else names[a], 'encoding bounds': None if e is None else names[e]}
        ctx.case(('bounds name', a, e), True)
        got = [utils.get_bounds_name(var), utils.get_bounds_name(xarray.Dataset({'v': var})['v'])]
        want = None if m is None else names[m.v]
        if got != [want, want]:
            ctx.report('correspondence', f'utils.get_bounds_name gives {got}, model BoundsName.get_bounds_name {want}', case, found_input=False)
    # the model's decode_all: a file whose coordinate names its bounds, opened with decode_coords='all'
    tmp = tempfile.mkdtemp(prefix='c06_bn_', dir=os.environ.get('VERIF_WORK', '/verif/work'))
    try:
        ds = xarray.Dataset({'lat_bnds': (('lat', 'nv'), numpy.array([[0.0, 1.0], [1.0, 2.5]]))},
                            coords={'lat': ('lat', numpy.array([0.5, 1.5]), {'units': 'degrees_north', 'bounds': 'lat_bnds'})})
        path = os.path.join(tmp, 'b.nc')
        with warnings.catch_warnings():
            warnings.simplefilter('ignore')
            ds.to_netcdf(path)
            with xarray.open_dataset(path, decode_coords='all') as o:
                where = ('bounds' in o['lat'].attrs, o['lat'].encoding.get('bounds'), 'lat_bnds' in o.coords)
        ctx.count(f"decode_coords='all' moves the bounds attribute to the encoding:{where == (False, 'lat_bnds', True)}")
        if where[0] is False and where[1] != 'lat_bnds':
            ctx.report('correspondence', f"xarray's decode_coords='all' leaves the bounds name neither in the attributes nor in the "
                       f'encoding ({where}): the model BoundsName.decode_all no longer describes it', {'file': 'b.nc'}, found_input=False)
    finally:
        import shutil
        shutil.rmtree(tmp, ignore_errors=True)


def run(ctx):
    rng = ctx.rng
    quick = ctx.tier == 'quick'
    ctx.rule = ('generated datasets of every convention (1-D axes ascending/descending/non-uniform with and without '
                'stored bounds; curvilinear grids with and without bounds, NaN cells in corner/edge/interior/river '
                'patterns, self-intersecting cells; node grids with masked regions; meshes mixing 3..8-gons, 0/1-based, '
                'NaN / _FillValue / no fill, transposed), each also with its coordinate or bounds variables moved '
                'between xarray coordinates and plain variables. A case is (dataset, variant); non-trivial = the grid has '
                '>= 2 cells; distinct by the dataset label + variant')
    bounds_name_leg(ctx)
    n_ds = 50 if quick else 500
    fixed = [('cf1d', dict(ny=2, nx=2, bounds=False)), ('cf1d', dict(ny=3, nx=5, bounds=True)),
             ('cf2d', dict(ny=4, nx=4, bounds=False, holes='interior')), ('cf2d', dict(ny=3, nx=4, bounds=False, holes='river')),
             ('cf2d', dict(ny=4, nx=3, bounds=False, holes='river_i')), ('cf2d', dict(ny=4, nx=5, bounds=False, holes='river_i')),
             ('cf2d', dict(ny=1, nx=3, bounds=False)), ('cf2d', dict(ny=3, nx=1, bounds=False)),
             ('cf2d', dict(ny=3, nx=3, bounds=True, invalid=True)),
             ('cf2d', dict(ny=3, nx=4, holes='none', bounds=True, bad_bounds=rng.choice(['xy_nv', 'nv_xy']))),
             ('cf2d', dict(ny=4, nx=4, holes='interior', bounds=True, bad_bounds=rng.choice(['xy_nv', 'nv_yx', 'five', 'lat_only_xy_nv']))),
             ('cf1d', dict(ny=3, nx=4, bounds=True, bad_bounds=rng.choice(['transposed', 'three']))),
             ('cf1d', dict(ny=3, nx=4, mixed_dtypes='lon_int')), ('cf1d', dict(ny=4, nx=3, mixed_dtypes='lat_int')),
             ('cf1d', dict(ny=3, nx=3, mixed_dtypes='lon_f4')),
             # single-cell datasets
             ('cf1d', dict(ny=1, nx=1, bounds=True)), ('cf2d', dict(ny=1, nx=1, bounds=True, holes='none', invalid=False)),
             ('shoc_standard', dict(nj=1, ni=1, holes='none', invalid=False)), ('ugrid', dict(w=1, h=1, invalid=False)),
             ('shoc_standard', dict(nj=3, ni=4, holes='corner', invalid=False, plain=True)),
             ('cf1d', dict(ny=3, nx=4, mixed_dtypes='lon_int')), ('cf1d', dict(ny=4, nx=3, bounds=True, bounds_on='lat')), ('cf1d', dict(ny=3, nx=5, bounds=True, bounds_on='lon')),
             ('shoc_simple', dict(ny=3, nx=4, bounds=False, holes='random')),
             ('shoc_standard', dict(nj=3, ni=3, holes='corner')), ('shoc_standard', dict(nj=2, ni=3, invalid=True)),
             ('shoc_standard', dict(nj=4, ni=4, holes='river', invalid=False, orphan_nodes=True)),
             ('shoc_standard', dict(nj=4, ni=5, holes='random', invalid=False, orphan_nodes=True)),
             ('ugrid', dict(w=3, h=3)), ('ugrid', dict(w=2, h=2, invalid=True))]
    datasets = [gen.any_dataset(rng, f, **kw) for f, kw in fixed]
    # cells that do not share whole edges: a mesh with a hanging node (one tall cell beside two short ones), and stored
    # bounds that overlap their neighbours
    hang_nodes = [(0, 0), (64, 0), (64, 128), (0, 128), (128, 0), (128, 64), (64, 64), (128, 128)]
    hang_faces = [[0, 1, 2, 3], [1, 4, 5, 6], [6, 5, 7, 2]]
    datasets.append(gen.ugrid(rng, mesh=(hang_nodes, hang_faces), invalid=False, supplied=set()))
    datasets.append(gen.cf2d(rng, ny=3, nx=3, bounds=True, holes='none', invalid=False, overlap=True))
    # a regular grid rolled along its longitude (cells 3, 4, 0, 1, 2: a 0..360 file cut somewhere else): the axis is not monotonic
    dr_ = gen.cf1d(rng, ny=3, nx=5, bounds=True)
    dr_.ds = dr_.ds.roll({dr_.spec['xdim']: 2}, roll_coords=True)
    dr_.spec['lon'] = [float(v) for v in numpy.roll(numpy.array(dr_.spec['lon']), 2)]
    dr_.spec['label'] += ' rolled along longitude'
    datasets.append(dr_)
    # a mesh whose node longitudes are single precision and node latitudes double precision
    datasets.append(gen.ugrid(rng, w=3, h=2, invalid=False, node_dtypes='x_f4'))
    # curvilinear grids whose longitude is stored (x, y) while the latitude is stored (y, x): square and not, corners stored and not
    datasets.append(gen.cf2d(rng, ny=3, nx=3, bounds=False, holes='none', invalid=False, lon_transposed=True))
    datasets.append(gen.cf2d(rng, ny=3, nx=4, bounds=False, holes='corner', invalid=False, lon_transposed=True))
    datasets.append(gen.cf2d(rng, ny=4, nx=3, bounds=True, holes='none', invalid=False, lon_transposed=True))
    # every face has four nodes but the table is six wide (each row padded with fill entries); zero-based with fill, one-based
    # writing 'nothing' as 0
    for si, fl in ((0, 'attr'), (1, 'attr0'), (0, 'nan')):
        datasets.append(gen.ugrid(rng, mesh=gen.lattice_mesh(rng, 3, 2, variety=False, drop=False), invalid=False, supplied=set(),
                                  start_index=si, fill=fl, extra_width=2, transposed=False))
    while len(datasets) < n_ds:
        datasets.append(gen.any_dataset(rng))
    exprs = [f'(option_map observe {pm.raw_expr(d)})' for d in datasets]
    model = coq_eval_sharded(['Model.Polygons'], exprs, shard=25)
    ctx.leg('coq_eval_cases', len(exprs))

    for d, mres in zip(datasets, model):
        ctx.count(f'family:{d.family}')
        if mres is None:
            m_polys = m_invalid = m_bounds = None
        else:
            (m_polys, m_invalid), m_bounds = mres.v
            m_polys = pm.model_polygons_to_float(m_polys)
            ctx.count('cells', len(m_polys))
            ctx.count('holes', sum(1 for p in m_polys if p is None))
            ctx.count('invalid_cells', len(m_invalid))
        for vname, ds in variants(rng, d):
            case = {'dataset': d.spec['label'], 'variant': vname, 'family': d.family,
                    'stored_bounds': bool(d.spec.get('bounds')), 'invalid_cells': list(m_invalid or [])}
            ctx.case((d.spec['label'], vname), m_polys is not None and len(m_polys) >= 2,
                     sample={'dataset': d.spec['label'], 'variant': vname,
                             'first_polygon_model': str(next((p for p in (m_polys or []) if p), None))})
            with warnings.catch_warnings(record=True) as wlist:
                warnings.simplefilter('always')
                r = attempt(lambda: pm.impl_polygons(ds.ems))
            warned = any(issubclass(w.category, InvalidPolygonWarning) for w in wlist)
            if r[0] != 'ok':
                if m_polys is not None:
                    ctx.report('property', f'polygons cannot be built ({r[1]}) for a dataset whose coordinates '
                               f'describe {len(m_polys)} cells', case, impl=r[1])
                continue
            i_polys = r[1]
            ems = ds.ems
            if m_polys is None:
                ctx.report('correspondence', 'model refuses the dataset, implementation builds polygons', case,
                           found_input=False)
                continue
            bad = None
            if len(i_polys) != len(m_polys):
                bad = f'{len(i_polys)} polygons for {len(m_polys)} cells'
            else:
                for n, (ip, mp) in enumerate(zip(i_polys, m_polys)):
                    if not same_ring(ip, mp):
                        bad = (f'cell {n}: polygon {ip} but the coordinates describe '
                               f'{mp if mp is not None else "no valid cell (missing coordinates or self-intersecting)"}')
                        break
            # validity mask agrees with the polygons
            mask = [bool(x) for x in ems.mask]
            if not bad and mask != [p is not None for p in i_polys]:
                bad = 'validity mask disagrees with the polygons'
            if not bad and warned != bool(m_invalid):
                bad = f'InvalidPolygonWarning emitted={warned} but self-intersecting cells = {m_invalid}'
            # extent
            if not bad and any(p is not None for p in i_polys):
                b = attempt(lambda: tuple(float(x) for x in ems.bounds))
                mb = bounds_tuple(m_bounds)
                if b[0] != 'ok' or b[1] != mb:
                    bad = f'bounds {b[1]} but the bounding box of the polygons is {mb}'
                else:
                    g = attempt(lambda: ems.geometry)
                    union = shapely.unary_union([shapely.Polygon(p) for p in i_polys if p is not None])
                    if g[0] != 'ok' or not g[1].equals(union):
                        bad = 'geometry is not the union of the cell polygons'
            if bad:
                ctx.report('property', bad, case)
