"""C16 - the geometry cache key depends on the geometry and on nothing else."""
import marshal
import os
import shutil
import subprocess
import sys
import tempfile
import warnings

import numpy
import xarray

import emsarray  # noqa: F401
from emsarray.operations.cache import make_cache_key
from coqio import coq_eval_sharded, to_coq
import gen
from hutil import attempt


class Recorder:
    """a hashlib-like object that keeps the exact byte stream"""
    def __init__(self):
        self.chunks = []

    def update(self, b):
        self.chunks.append(bytes(b))

    def hexdigest(self):
        return 'recorded'

    def bytes(self):
        return b''.join(self.chunks)


def stream_of(ds):
    r = Recorder()
    with warnings.catch_warnings():
        warnings.simplefilter('ignore')
        make_cache_key(ds, hash=r)
    return r.bytes()


def key_of(ds):
    with warnings.catch_warnings():
        warnings.simplefilter('ignore')
        return make_cache_key(ds)


def canon_attrs(attrs):
    out = []
    for k in sorted(attrs, key=str):
        v = attrs[k]
        if isinstance(v, numpy.ndarray):
            v = ('array', str(v.dtype), v.tolist())
        elif isinstance(v, numpy.generic):
            v = ('scalar', str(v.dtype), v.item())
        out.append((str(k), repr(v)))
    return repr(out).encode()


def describe(ds, names, canonical=False):
    """(name, dtype name, shape, data bytes, n_attrs, attribute bytes) of every geometry variable, read independently"""
    out = []
    for nm in names:
        da = ds[nm]
        dt = da.encoding.get('dtype', da.values.dtype)
        dt = numpy.dtype(dt).name
        attrs = da.attrs
        ab = canon_attrs(attrs) if canonical else marshal.dumps(attrs, 4)
        out.append((str(nm), dt, [int(s) for s in da.shape], da.to_numpy().tobytes('C'), len(attrs), ab))
    return out


def py_stream(ds, names):
    """the model's stream (Model/CacheKey.v `stream`), computed in python from the same independent reading; the Coq
    evaluation of the base dataset cross-checks this mirror on every run"""
    def i32(v):
        return int(v).to_bytes(4, 'little', signed=True)

    def enc_str(t):
        return i32(len(t)) + t.encode('utf-8')
    out = b''
    for nm, dt, shape, data, na, ab in describe(ds, names):
        size = 1
        for x in shape:
            size *= x
        out += enc_str(nm) + enc_str(dt) + i32(size) + b''.join(i32(x) for x in shape) + data + i32(4) + i32(na) + i32(len(ab)) + ab
    cls = type(ds.ems)
    return out + enc_str(cls.__module__) + enc_str(cls.__name__) + enc_str(emsarray.__version__)


def canonical_stream(ds, names):
    parts = []
    for nm, dt, shape, data, na, ab in describe(ds, names, canonical=True):
        parts.append(repr((nm, dt, shape, data, na, ab)).encode())
    cls = type(ds.ems)
    parts.append(repr((cls.__module__, cls.__name__, emsarray.__version__)).encode())
    return b'|'.join(parts)


def expected_inventory(d, ds):
    s = d.spec
    if d.family == 'cf1d':
        names = {s['lonname'], s['latname']}
        if s['bounds']:
            names |= {'lat_bnds', 'lon_bnds'}
        return names
    if d.family in ('cf2d', 'shoc_simple'):
        names = {s['lonname'], s['latname']}
        for b in (ds[s['lonname']].attrs.get('bounds'), ds[s['latname']].attrs.get('bounds')):
            if b is not None and b in ds.variables:
                names.add(b)
        return names
    if d.family == 'shoc_standard':
        return {'y_centre', 'x_centre', 'y_left', 'x_left', 'y_back', 'x_back', 'y_grid', 'x_grid'}
    names = {'Mesh2', 'Mesh2_face_nodes', 'Mesh2_node_x', 'Mesh2_node_y'}
    v = {'edge_node': 'Mesh2_edge_nodes', 'face_edge': 'Mesh2_face_edges', 'edge_face': 'Mesh2_edge_faces',
         'face_face': 'Mesh2_face_links'}
    for k in s['supplied']:
        if k.startswith('edge') and not s['has_edge_dim']:
            continue
        names.add(v[k])
    if s['face_coords']:
        names |= {'Mesh2_face_x', 'Mesh2_face_y'}
    return names


def blit(b):
    return to_coq(list(b))


def var_literal(t):
    nm, dt, shape, data, na, ab = t
    return (f'{{| name := {blit(nm.encode())}; dtype := {blit(dt.encode())}; shape := {to_coq(shape)}; data := {blit(data)}; '
            f'n_attrs := {na}; attr_bytes := {blit(ab)} |}}')


def fortran_layout(ds, names):
    """the same values held in column-major memory (numpy.asfortranarray, the .T idiom)"""
    ds = ds.copy()
    done = False
    for nm in names:
        a = ds[nm]
        if a.ndim == 2 and min(a.shape) > 1:
            v = numpy.asfortranarray(a.values)
            enc = dict(a.encoding)
            ds[nm] = (a.dims, v, a.attrs)
            ds[nm].encoding.update(enc)
            done = True
    if not done:
        raise ValueError('no 2-D geometry variable')
    return ds


SUBPROC = r'''
import sys, warnings
warnings.simplefilter('ignore')
import emsarray
from emsarray.operations.cache import make_cache_key
for p in sys.argv[1:]:
    print(make_cache_key(emsarray.open_dataset(p)))
'''


def less_common_holdings_leg(ctx, tmp):
    """Geometry variables found where the file's reader or the file itself left their names: bounds named in the encoding (a file
    opened with decode_coords='all'), a face_edge table / edge coordinates of a mesh that names no edge dimension.  Each is part
    of the inventory, and an edit of one of its values changes the hashed bytes."""
    rng = ctx.rng
    todo = []
    for fam, kw in (('cf1d', dict(bounds=True)), ('cf2d', dict(bounds=True, invalid=False, holes='none'))):
        d = gen.any_dataset(rng, fam, **kw)
        path = os.path.join(tmp, f'lch_{fam}.nc')
        with warnings.catch_warnings():
            warnings.simplefilter('ignore')
            d.ds.to_netcdf(path)
            plain = xarray.open_dataset(path)
            bnames = [plain[d.spec[k]].attrs.get('bounds') for k in ('lonname', 'latname')]
            plain.close()
            ds = emsarray.open_dataset(path, decode_coords='all')
            ds.load()
        todo.append((f"{d.spec['label']} opened with decode_coords='all'", ds, {d.spec['lonname'], d.spec['latname'], *bnames}, [b for b in bnames if b]))
    dm = gen.ugrid(rng, w=3, h=2, supplied={'face_edge'}, phantom_edge_dim=True, invalid=False, fill='nan' if rng.random() < 0.5 else 'attr')
    dsm = dm.ds.copy()
    attrs = dict(dsm['Mesh2'].attrs)
    attrs.pop('edge_dimension', None)
    dsm['Mesh2'] = dsm['Mesh2'].copy()
    dsm['Mesh2'].attrs = attrs
    todo.append((dm.spec['label'] + ' without the edge_dimension attribute', dsm, expected_inventory(dm, dsm), ['Mesh2_face_edges']))
    for label, ds, want, editable in todo:
        case = {'dataset': label, 'leg': 'less common holdings'}
        ctx.count('less_common_holdings')
        ctx.case((label, 'holdings'), True)
        with warnings.catch_warnings():
            warnings.simplefilter('ignore')
            names = attempt(lambda: {str(x) for x in ds.ems.get_all_geometry_names()})
        if names[0] != 'ok':
            ctx.count(f'less_common_holdings:refused:{names[1]}')
            continue
        if names[1] != {str(x) for x in want}:
            ctx.report('property', f'geometry inventory {sorted(names[1])}, the geometry variables of this dataset are {sorted(map(str, want))}', case)
            continue
        base = attempt(lambda: stream_of(ds))
        if base[0] != 'ok':
            ctx.report('property', f'make_cache_key failed: {base[1]}', case)
            continue
        for vname in editable:
            ds2 = ds.copy(deep=True)
            vals = numpy.array(ds2[vname].values, copy=True, order='C')      # (C order: reshape(-1) is then a view and the edit lands)
            flat = vals.reshape(-1)
            k = next((i for i, x in enumerate(flat) if x == x), 0)
            flat[k] = flat[k] + 1
            ds2[vname] = (ds2[vname].dims, vals, dict(ds2[vname].attrs))
            ds2[vname].encoding = dict(ds[vname].encoding)
            for cv in ds.variables:
                ds2[cv].encoding = dict(ds[cv].encoding)
            if set(ds.coords) != set(ds2.coords):
                ds2 = ds2.set_coords([c for c in ds.coords if c in ds2.variables])
            got = attempt(lambda: stream_of(ds2))
            if got[0] == 'ok' and got[1] == base[1]:
                ctx.report('property', f'one value of the geometry variable {vname} was changed and the hashed bytes stayed the same', dict(case, edited=vname))


def run(ctx):
    rng = ctx.rng
    quick = ctx.tier == 'quick'
    ctx.rule = ('datasets of every convention (in memory and read back from netCDF): (1) the exact byte stream fed to the hash '
                '(captured with a recording hash object) against the model stream built from an independent reading of the '
                'geometry variables; (2) edits of non-geometry content (data variables added / reordered, global attributes, more '
                'time steps) must leave the stream unchanged; (3) each single geometry edit (one value, dtype, transposed shape with '
                'the same bytes, rename, attribute added / changed / removed, convention subclass) must change it; (4) keys of files '
                'recomputed in fresh interpreters with PYTHONHASHSEED 0 / 1 / random. non-trivial = every case; distinct by content')
    n_ds = 10 if quick else 60
    tmp = tempfile.mkdtemp(prefix='c16_', dir=os.environ.get('VERIF_WORK', '/verif/work'))
    exprs, plans, files = [], [], []
    try:
        for n in range(n_ds):
            kw16 = {}
            if n == 4:
                # every run has a mesh that carries all four optional tables, written to a file: its key is recomputed in fresh
                # interpreters under other hash seeds
                kw16 = dict(supplied={'edge_node', 'face_edge', 'edge_face', 'face_face'}, edge_dim_declared=True, invalid=False)
            d = gen.any_dataset(rng, gen.FAMILIES[n % len(gen.FAMILIES)], **kw16)
            ds = d.ds
            gen.add_data_vars(rng, ds, {'face': d.spec['kinds']['face']}, names_prefix='h', n_extra_max=1)
            label = d.spec['label']
            held = 'as generated'
            if (n // len(gen.FAMILIES)) % 2 == 1:
                if d.family in ('cf1d', 'cf2d', 'shoc_simple'):
                    # stored bounds held as xarray coordinates (set_coords, or a file whose `coordinates` attribute lists them)
                    bn = [ds[x].attrs.get('bounds') for x in (d.spec['latname'], d.spec['lonname'])]
                    bn = [b for b in bn if b is not None and b in ds.data_vars]
                    if bn:
                        ds = ds.set_coords(bn)
                        held = 'bounds held as coordinates'
                elif d.family == 'ugrid':
                    # connectivity tables stored in an unsigned integer type (tables without padding only)
                    cast = False
                    for v_ in list(ds.data_vars):
                        a_ = ds[v_]
                        if str(a_.attrs.get('cf_role', '')).endswith('_connectivity') and a_.dtype.kind == 'i' and a_.values.min() >= 0:
                            ds[v_] = (a_.dims, a_.values.astype('u4'),
                                      {k_: (numpy.uint32(x_) if k_ in ('start_index', '_FillValue') else x_) for k_, x_ in a_.attrs.items()})
                            cast = True
                    if cast:
                        held = 'integer connectivity tables stored unsigned'
            ctx.count(f'held:{held}')
            from_file = rng.random() < 0.5 or n == 4
            if from_file:
                path = os.path.join(tmp, f'd{n}.nc')
                with warnings.catch_warnings():
                    warnings.simplefilter('ignore')
                    ds.to_netcdf(path)
                    ds = xarray.open_dataset(path)
                    ds.load()
                files.append((label, path))
            ctx.count(f'family:{d.family}')
            ctx.count(f'source:{"file" if from_file else "memory"}')
            case = {'dataset': label, 'source': 'file' if from_file else 'memory'}
            with warnings.catch_warnings():
                warnings.simplefilter('ignore')
                names = attempt(lambda: list(ds.ems.get_all_geometry_names()))
            if names[0] != 'ok':
                ctx.report('property', f'get_all_geometry_names failed: {names[1]}', case)
                continue
            names = names[1]
            want = expected_inventory(d, ds)
            ctx.case((label, from_file, 'stream'), True, sample=dict(case, geometry_variables=[str(x) for x in names]) if n < 2 else None)
            if {str(x) for x in names} != want:
                ctx.report('property', f'geometry inventory {sorted(map(str, names))}, the geometry variables of this dataset are '
                           f'{sorted(want)}', case)
                continue
            # (1) the stream
            desc = describe(ds, names)
            got = stream_of(ds)
            cls = type(ds.ems)
            exprs.append(f'(stream [{"; ".join(var_literal(t) for t in desc)}] {blit(cls.__module__.encode())} '
                         f'{blit(cls.__name__.encode())} {blit(emsarray.__version__.encode())})')
            plans.append((case, got))
            if got != py_stream(ds, names):
                ctx.report('correspondence', 'the hashed bytes are not the documented function of the geometry variables and the '
                           'convention (model of the stream no longer matches the code)', case, found_input=False)
                continue
            base_canon = canonical_stream(ds, names)
            base_stream = got
            # (2) non-geometry edits
            kept_alive = []
            for ename, edit in [
                ('data variable added', lambda x: x.assign(extra_var=(list(x[list(x.data_vars)[-1]].dims), numpy.zeros(x[list(x.data_vars)[-1]].shape)))),
                ('global attributes changed', lambda x: x.assign_attrs(title='another title', history='edited')),
                ('data variables dropped', lambda x: x.drop_vars([v for v in x.data_vars if str(v).startswith('h_')])),
                ('more time steps', lambda x: x.assign(series=(('many_times',), numpy.arange(7.0)))),
                ('fortran memory layout', lambda x: fortran_layout(x, names)),
                # the same file opened in dask chunks of two along every dimension: how the arrays are cut up is not geometry
                ('opened in dask chunks', (lambda x: xarray.open_dataset(path, chunks={k_: 2 for k_ in x.sizes})) if from_file else (lambda x: x.chunk({k_: 2 for k_ in x.sizes}))),
                # a CF grid mapping (projection) variable and a data variable pointing at it: neither is a geometry variable
                ('grid mapping variable and link added', lambda x: x.assign(
                    crs=xarray.DataArray(numpy.int32(0), attrs={'grid_mapping_name': 'latitude_longitude', 'semi_major_axis': 6378137.0}),
                    linked=(list(x[list(x.data_vars)[-1]].dims), numpy.ones(x[list(x.data_vars)[-1]].shape), {'grid_mapping': 'crs'}))),
                ('grid mapping with another ellipsoid', lambda x: x.assign(
                    crs=xarray.DataArray(numpy.int32(0), attrs={'grid_mapping_name': 'latitude_longitude', 'semi_major_axis': 6371000.0}),
                    linked=(list(x[list(x.data_vars)[-1]].dims), numpy.ones(x[list(x.data_vars)[-1]].shape), {'grid_mapping': 'crs'}))),
            ]:
                with warnings.catch_warnings():
                    warnings.simplefilter('ignore')
                    e = attempt(edit, ds)
                if e[0] != 'ok':
                    continue
                ds2 = e[1]
                kept_alive.append(ds2)
                ecase = dict(case, edit=ename, kind='non_geometry_edit')
                ctx.case((label, from_file, ename), True)
                ctx.count(f'edit:{ename}')
                with warnings.catch_warnings():
                    warnings.simplefilter('ignore')
                    n2 = attempt(lambda: list(ds2.ems.get_all_geometry_names()))
                if n2[0] != 'ok' or [str(x) for x in n2[1]] != [str(x) for x in names]:
                    ctx.report('property', f'after "{ename}" the geometry inventory became {n2[1]}', ecase)
                    continue
                if canonical_stream(ds2, names) != base_canon:
                    ctx.report('property', f'"{ename}" changes what is hashed although no geometry variable changed', ecase)
                    continue
                s2 = stream_of(ds2)
                if s2 != base_stream and s2 != py_stream(ds2, names):
                    ctx.report('property', f'"{ename}" leaves every geometry variable and attribute equal but the hashed bytes (and '
                               f'the key) differ, and they are no longer the documented function of the geometry variables (name, '
                               f'dtype, size, shape, C-order values, attributes) and the convention', ecase)
                elif s2 != base_stream:
                    # same names, dtypes, shapes, values and attributes - yet other bytes: only the marshal encoding of
                    # the attribute dictionaries (reference flags / interning) can differ
                    ctx.report('property', f'"{ename}" leaves every geometry variable and attribute equal but the hashed bytes '
                               f'(and the key) differ: marshal.dumps of the attribute dictionaries depends on object state',
                               dict(ecase, kind='object_state'))
            # the same dataset, copied: equal content must give an equal key
            k1 = key_of(ds)
            cp = ds.copy()
            k2 = key_of(cp)
            k3 = key_of(ds)
            ctx.case((label, from_file, 'copy'), True)
            if not (k1 == k2 == k3):
                ctx.report('property', f'key of a dataset {k1[:12]}.., of its copy {k2[:12]}.., of the dataset again {k3[:12]}..: '
                           f'equal geometry, different keys', dict(case, kind='object_state', edit='copy'))
            # (2a) asking for the key, or for anything else, does not change the key: the same object asked twice, then after its
            # polygons and (meshes) neighbour tables were built, gives the same key, and its variables' encodings are as before
            obj = ds.copy(deep=True)
            for v_ in obj.variables:
                obj[v_].encoding = dict(ds[v_].encoding)
            enc_before = {str(v_): repr(sorted((str(k_), repr(x_)) for k_, x_ in obj[v_].encoding.items())) for v_ in obj.variables}
            ka = attempt(key_of, obj)
            kb = attempt(key_of, obj)
            with warnings.catch_warnings():
                warnings.simplefilter('ignore')
                attempt(lambda: (obj.ems.polygons, getattr(getattr(obj.ems, 'topology', None), 'face_face_array', None), obj.ems.strtree))
            kc = attempt(key_of, obj)
            enc_after = {str(v_): repr(sorted((str(k_), repr(x_)) for k_, x_ in obj[v_].encoding.items())) for v_ in obj.variables}
            ctx.case((label, from_file, 'asked twice'), True)
            ctx.count('key asked twice / after the geometry was used')
            hcase = dict(case, kind='same object asked again')
            if ka[0] == 'ok' and (kb != ka):
                ctx.report('property', 'the same Dataset object asked twice for its key gives two keys', hcase)
            elif enc_after != enc_before:
                changed = [v_ for v_ in enc_before if enc_before[v_] != enc_after.get(v_)]
                ctx.report('property', f'asking for the key changed the encoding of {changed}', hcase)
            elif ka[0] == 'ok' and kc != ka and not obj.identical(ds):
                ctx.report('property', 'building the polygons / neighbour tables of the dataset changed its geometry variables and its key', hcase)
            # (2b) the key is a function of the dataset as it is now: the same Dataset object asked again after one of its
            # geometry variables was edited in place (a coordinate corrected, an attribute added) answers for the new content, and
            # for the old content again once the edit is undone
            work = ds.copy(deep=True)
            gname = next((x for x in names if work[x].size >= 1 and work[x].dtype.kind == 'f' and numpy.isfinite(work[x].values).any()), None)
            if gname is not None:
                icase = dict(case, kind='in_place_edit', variable=str(gname))
                ctx.case((label, from_file, 'in place'), True)
                ctx.count('edit:in place on the same object')
                k0 = attempt(key_of, work)
                vals = work[gname].values
                pos = int(numpy.flatnonzero(numpy.isfinite(vals.reshape(-1)))[0])
                old_v = vals.reshape(-1)[pos]
                try:
                    work[gname].values.reshape(-1)[pos] = old_v + 0.5
                except ValueError:
                    pass            # read-only buffer
                if work[gname].values.reshape(-1)[pos] == old_v:
                    pass            # the values are not writable in place: nothing to ask
                else:
                    k1 = attempt(key_of, work)
                    work[gname].values.reshape(-1)[pos] = old_v
                    k2 = attempt(key_of, work)
                    work[gname].attrs['verif_note'] = 'checked'
                    k3 = attempt(key_of, work)
                    del work[gname].attrs['verif_note']
                    k4 = attempt(key_of, work)
                    if 'ok' not in (k0[0],) or any(k[0] != 'ok' for k in (k1, k2, k3, k4)):
                        ctx.report('property', f'make_cache_key failed around an in-place edit: {[k0, k1, k2, k3, k4]}', icase)
                    elif k1[1] == k0[1]:
                        ctx.report('property', f'one value of {gname} was changed in place on the same Dataset object and the key stayed the same', icase)
                    elif k2[1] != k0[1]:
                        ctx.report('property', f'the value of {gname} was put back and the key differs from the original key', icase)
                    elif k3[1] == k0[1]:
                        ctx.report('property', f'an attribute was added to {gname} in place and the key stayed the same', icase)
                    elif k4[1] != k0[1]:
                        ctx.report('property', f'the attribute of {gname} was removed again and the key differs from the original key', icase)
            # (3) single geometry edits
            gname = str(names[-1] if d.family != 'ugrid' else 'Mesh2_node_x')
            edits = []

            def e_value(x):
                x = x.copy(deep=True)
                v = x[gname].values.copy()
                flat = v.reshape(-1)
                k = next((i for i, y in enumerate(flat) if y == y), 0)
                flat[k] = flat[k] + 0.125
                x[gname] = (x[gname].dims, v, x[gname].attrs)
                return x
            edits.append(('one value', e_value))

            def e_dtype(x):
                x = x.copy(deep=True)
                x[gname] = (x[gname].dims, x[gname].values.astype('f4'), x[gname].attrs)
                return x
            edits.append(('dtype', e_dtype))

            def e_attr_add(x):
                x = x.copy(deep=True)
                x[gname].attrs['comment'] = 'added'
                return x
            edits.append(('attribute added', e_attr_add))

            def e_attr_change(x):
                x = x.copy(deep=True)
                k = next(iter(x[gname].attrs), None)
                if k is None:
                    raise ValueError('no attribute')
                x[gname].attrs[k] = 'changed'
                return x
            edits.append(('attribute changed', e_attr_change))

            def e_attr_remove(x):
                x = x.copy(deep=True)
                k = [a for a in x[gname].attrs if a in ('long_name', 'comment', 'title')]
                if not k:
                    raise ValueError('no removable attribute')
                del x[gname].attrs[k[0]]
                return x
            edits.append(('attribute removed', e_attr_remove))
            # attributes by name: packing / missing-data attributes (which xarray moves between attrs and encoding depending on
            # how the file was opened), CF / UGRID role attributes, and free text - on any geometry variable
            special = ['_FillValue', 'missing_value', 'scale_factor', 'add_offset', 'units', 'standard_name', 'axis', 'bounds',
                       'start_index', 'cf_role', 'coordinates', 'valid_min', 'valid_range', 'positive', 'history', 'Conventions']
            gvars = [str(x) for x in names]
            for aname in (rng.sample(special, 5) if quick else special):
                target = rng.choice(gvars)

                def e_named(x, aname=aname, target=target):
                    x = x.copy(deep=True)
                    old = x[target].attrs.get(aname)
                    if isinstance(old, str) or (old is None and aname in ('units', 'standard_name', 'axis', 'bounds', 'cf_role',
                                                                          'coordinates', 'positive', 'history', 'Conventions')):
                        new = 'other' if old != 'other' else 'another'
                    elif aname == 'valid_range':
                        new = numpy.array([-7.0, 7.5]) if old is None else numpy.asarray(old) + 1
                    else:
                        new = (numpy.asarray(old) + 1).astype(numpy.asarray(old).dtype)[()] if old is not None else numpy.float64(3.5)
                    x[target].attrs[aname] = new
                    return x
                edits.append((f'attribute {aname} set on {target}', e_named))
            if d.family in ('cf2d',) and d.spec['ny'] != d.spec['nx'] and not d.spec.get('bounds'):
                def e_shape(x):
                    # the same bytes under the transposed shape
                    x = x.copy(deep=True)
                    for nm in (d.spec['lonname'], d.spec['latname']):
                        a = x[nm]
                        x = x.drop_vars(nm)
                        x[nm] = (a.dims[::-1], a.values.reshape(a.shape[::-1]), a.attrs)
                    return x.drop_vars([v for v in x.data_vars if str(v).startswith('h_')])
                edits.append(('shape with the same bytes', e_shape))
            if d.family == 'cf1d' and d.spec['latname'] not in ds.dims:
                edits.append(('rename', lambda x: x.rename({d.spec['latname']: 'renamed_latitude'})))
            if d.family in ('cf2d', 'shoc_simple'):
                edits.append(('rename', lambda x: x.rename({d.spec['latname']: 'renamed_latitude'})))
            # names that differ only by Unicode compatibility forms are different names: renaming a geometry variable to
            # 'x²' and to 'x2' (superscript two / digit two), or to full-width letters, gives three different keys
            if d.family in ('cf1d', 'cf2d', 'shoc_simple') and (d.family != 'cf1d' or d.spec['latname'] not in ds.dims):
                base_name = d.spec['latname']
                variants = [base_name + '\u00b2', base_name + '2', base_name + '\uff12', 'l\u00b5', 'l\u03bc']
                with warnings.catch_warnings():
                    warnings.simplefilter('ignore')
                    streams = [attempt(lambda v=v: stream_of(ds.rename({base_name: v}))) for v in variants]
                ctx.case((label, from_file, 'unicode renames'), True)
                ctx.count('edit:renames differing by Unicode compatibility forms')
                ok = [(v, st[1]) for v, st in zip(variants, streams) if st[0] == 'ok']
                for i in range(len(ok)):
                    for j in range(i + 1, len(ok)):
                        if ok[i][1] == ok[j][1]:
                            ctx.report('property', f'geometry variable renamed to {ok[i][0]!r} and to {ok[j][0]!r}: the same bytes are '
                                       f'hashed, same key for different names', dict(case, edit='rename', names=[ok[i][0], ok[j][0]],
                                                                                     kind='geometry_edit'))
                            break
                    else:
                        continue
                    break
            for ename, edit in edits:
                with warnings.catch_warnings():
                    warnings.simplefilter('ignore')
                    e = attempt(edit, ds)
                    if e[0] != 'ok':
                        continue
                    s2 = attempt(stream_of, e[1])
                ecase = dict(case, edit=ename, variable=gname, kind='geometry_edit')
                ctx.case((label, from_file, ename), True)
                ctx.count('edit:' + (ename.split(' on ')[0] if ename.startswith('attribute ') and ' set on ' in ename else ename))
                if s2[0] != 'ok':
                    continue
                if s2[1] == base_stream:
                    ctx.report('property', f'"{ename}"' + ('' if ' set on ' in ename else f' of geometry variable {gname}')
                               + ' does not change what is hashed: same key', ecase)
            # a value edit below single precision on a variable that still carries a float32 on-disk dtype in its
            # encoding (file stored as float32, double precision values assigned back by the application)
            def with_f32_encoding(x, delta):
                x = x.copy(deep=True)
                a = x[gname]
                v = numpy.asarray(a.values, dtype='f8').copy()
                flat = v.reshape(-1)
                k = next((i for i, y in enumerate(flat) if y == y), 0)
                flat[k] = flat[k] + delta
                enc = dict(a.encoding)
                if gname in x.coords:
                    x = x.assign_coords({gname: (a.dims, v, a.attrs)})
                else:
                    x[gname] = (a.dims, v, a.attrs)
                x[gname].encoding.update(enc)
                x[gname].encoding['dtype'] = numpy.dtype('float32')
                return x
            if ds[gname].dtype.kind == 'f':
                with warnings.catch_warnings():
                    warnings.simplefilter('ignore')
                    ea, eb = attempt(with_f32_encoding, ds, 0.0), attempt(with_f32_encoding, ds, 2.0 ** -30)
                if ea[0] == 'ok' and eb[0] == 'ok':
                    sa, sb = attempt(stream_of, ea[1]), attempt(stream_of, eb[1])
                    ecase = dict(case, edit='value edit of 2^-30 under a float32 encoding', variable=gname, kind='geometry_edit')
                    ctx.case((label, from_file, 'f32-encoding'), True)
                    ctx.count('edit:value below float32 resolution, float32 encoding')
                    if sa[0] == 'ok' and sb[0] == 'ok':
                        if sa[1] == sb[1]:
                            ctx.report('property', f'{gname} changed by 2^-30 (double precision values, float32 dtype in the '
                                       f'encoding) and the hashed bytes are the same: same key', ecase)
                        elif sa[1] != py_stream(ea[1], names):
                            ctx.report('correspondence', 'with a float32 dtype in the encoding the hashed bytes are not the '
                                       'documented function of the geometry variables', ecase, found_input=False)
            # the convention
            base_cls = type(ds.ems)
            sub = type('Sub' + base_cls.__name__, (base_cls,), {})
            cp2 = ds.copy()
            with warnings.catch_warnings():
                warnings.simplefilter('ignore')
                conv = attempt(lambda: sub(cp2).bind())
                if conv[0] == 'ok':
                    ctx.case((label, from_file, 'convention'), True)
                    ctx.count('edit:convention')
                    if stream_of(cp2) == base_stream:
                        ctx.report('property', 'another convention class gives the same hashed bytes', dict(case, edit='convention'))
        model = coq_eval_sharded(['Model.CacheKey'], exprs, shard=2, workers=14)
        ctx.leg('stream_cases', len(exprs))
        for (case, got), mres in zip(plans, model):
            if list(got) != mres:
                k = next((i for i, (a, b) in enumerate(zip(got, mres)) if a != b), min(len(got), len(mres)))
                ctx.report('correspondence', f'hashed byte stream differs from the model at byte {k} (lengths {len(got)} / {len(mres)})',
                           case, found_input=False)
        # (4) fresh interpreters
        if files:
            sample = files[:3] if quick else files[:12]
            keys = {}
            for seed in ['0', '1', 'random']:
                env = dict(os.environ, PYTHONHASHSEED=seed)
                r = subprocess.run([sys.executable, '-W', 'ignore', '-c', SUBPROC] + [p for _, p in sample],
                                   capture_output=True, text=True, env=env, timeout=600)
                keys[seed] = r.stdout.split()
                ctx.count(f'subprocess:hashseed={seed}')
            with warnings.catch_warnings():
                warnings.simplefilter('ignore')
                here = [key_of(emsarray.open_dataset(p)) for _, p in sample]
            for k, (label, p) in enumerate(sample):
                ctx.case((label, 'subprocess'), True)
                ks = {seed: (v[k] if k < len(v) else None) for seed, v in keys.items()}
                if len(set(ks.values())) != 1 or None in ks.values():
                    ctx.report('property', f'key of the same file differs between interpreter processes: {ks}', {'dataset': label})
                elif here[k] != ks['0']:
                    ctx.report('property', f'key of a file computed in this process {here[k][:12]}.. differs from a fresh process '
                               f'{ks["0"][:12]}..', {'dataset': label, 'kind': 'object_state', 'edit': 'process'})
        # (5) an Arakawa C convention made explicitly: the coordinate variables carry other names, told to the convention through
        # the documented coordinate_names= option.  The geometry variables are the ones named, and the key follows them
        for trial in range(2 if quick else 10):
            d = gen.any_dataset(rng, 'shoc_standard', invalid=False)
            gen.add_data_vars(rng, d.ds, {'face': d.spec['kinds']['face']}, names_prefix='h', n_extra_max=1)
            conv = d.ds.ems
            names8 = {k.value: (str(a), str(b)) for k, (a, b) in conv.coordinate_names.items()}
            rename = {nm: f'geo_{nm}' for pair in names8.values() for nm in pair}
            order = list(names8)
            rng.shuffle(order)
            given = {k: (rename[names8[k][0]], rename[names8[k][1]]) for k in order}
            cls = type(conv) if trial % 2 == 0 else type(conv).__mro__[1]
            renamed = d.ds.copy(deep=True).rename(rename)

            def bound(x, cls=cls, given=given):
                y = x.copy(deep=True)
                with warnings.catch_warnings():
                    warnings.simplefilter('ignore')
                    cls(y, coordinate_names=dict(given)).bind()
                return y
            case = {'dataset': d.spec['label'], 'convention': f'{cls.__name__}(dataset, coordinate_names=...)', 'coordinate_names': given}
            ctx.case((d.spec['label'], 'coordinate_names', trial), True)
            ctx.count(f'explicit coordinate_names:{cls.__name__}')
            b0 = attempt(lambda: bound(renamed))
            if b0[0] != 'ok':
                ctx.report('property', f'{cls.__name__}(dataset, coordinate_names=...) failed: {b0[1]}', case)
                continue
            inv = attempt(lambda: {str(x) for x in b0[1].ems.get_all_geometry_names()})
            if inv[0] != 'ok' or inv[1] != set(rename.values()):
                ctx.report('property', f'geometry inventory {sorted(inv[1]) if inv[0] == "ok" else inv[1]}, the geometry variables named to '
                           f'the convention are {sorted(rename.values())}', case)
                continue
            k0 = attempt(lambda: key_of(b0[1]))
            bad = None
            for nm in sorted(rename.values()):
                e = renamed.copy(deep=True)
                vals = numpy.array(e[nm].values, copy=True)
                finite = [k_ for k_, x_ in enumerate(vals.reshape(-1)) if x_ == x_]       # (a missing coordinate stays missing)
                if not finite:
                    continue
                vals.reshape(-1)[rng.choice(finite)] += 0.5
                e[nm] = (e[nm].dims, vals, e[nm].attrs)
                k1 = attempt(lambda: key_of(bound(e)))
                if k0[0] != 'ok' or k1[0] != 'ok':
                    bad = f'make_cache_key failed: {k0} {k1}'
                elif k1[1] == k0[1]:
                    bad = f'changing one value of the geometry variable {nm} leaves the key unchanged'
                if bad:
                    break
            if not bad:
                e = renamed.copy(deep=True)
                e['extra_data'] = e[next(iter(rename.values()))] * 0 + 7
                e.attrs['title'] = 'another title'
                k2 = attempt(lambda: key_of(bound(e)))
                if k2[0] != 'ok' or k2[1] != k0[1]:
                    bad = 'adding a data variable and a global attribute changes the key'
            if bad:
                ctx.report('property', bad, case)
        less_common_holdings_leg(ctx, tmp)
    finally:
        shutil.rmtree(tmp, ignore_errors=True)
