"""Model inputs / implementation observations for cell polygons (C02, C04, C06, C07, C14, C15, C19)."""
from __future__ import annotations

from fractions import Fraction

import numpy
import shapely

from coqio import Raw, Some, to_coq


def q(x):
    x = float(x)
    if x != x:
        return None
    return Fraction(x)


def coq_q(x):
    f = q(x)
    assert f is not None
    return f'(Qmake ({f.numerator}) {f.denominator})'


def coq_oq(x):
    f = q(x)
    return 'None' if f is None else f'(Some (Qmake ({f.numerator}) {f.denominator}))'


def coq_list(items):
    return '[' + '; '.join(items) + ']'


def arr1(a):
    return coq_list([coq_oq(x) for x in a])


def arr2(a):
    return coq_list([arr1(r) for r in a])


def arr3(a):
    return coq_list([arr2(r) for r in a])


def qlist(a):
    return coq_list([coq_q(x) for x in a])


def qpairs(a):
    return coq_list([f'({coq_q(x)}, {coq_q(y)})' for x, y in a])


def raw_expr(d):
    """Coq expression : option (list (option ring))  -- None when the code raises before building polygons"""
    s = d.spec
    if d.family == 'cf1d':
        # the model decides from the stored layout whether a bounds variable is used (dimension ids: y = 0, x = 1, other = 2)
        def stored1(cname, cdim_id):
            b = d.ds[cname].attrs.get('bounds')
            if b is None or b not in d.ds.variables:
                return 'NoBounds1'
            a = d.ds[b]
            ids = [cdim_id if x == d.ds[cname].dims[0] else 2 for x in a.dims]
            vals = a.values if a.ndim == 2 and a.shape[1] == 2 else numpy.zeros((0, 2))
            return f"(Stored1 {to_coq(ids)} {int(a.shape[-1])} {qpairs(vals)})"
        return (f"(cf1d_polys 0 1 {qlist(s['lon'])} {qlist(s['lat'])} {stored1(s['lonname'], 1)} {stored1(s['latname'], 0)})")
    if d.family in ('cf2d', 'shoc_simple'):
        def stored2(cname):
            b = d.ds[cname].attrs.get('bounds')
            if b is None or b not in d.ds.variables:
                return 'NoBounds'
            a = d.ds[b]
            ids = [0 if x == s['ydim'] else 1 if x == s['xdim'] else 2 for x in a.dims]
            vals = a.values if a.ndim == 3 else numpy.zeros((0, 0, 0))
            return f"(Stored {to_coq(ids)} {int(a.shape[-1])} {arr3(vals)})"
        return (f"(Some (cf2d_raw {s['ny']} {s['nx']} 0 1 {arr2(s['lon'])} {arr2(s['lat'])} "
                f"{stored2(s['lonname'])} {stored2(s['latname'])}))")
    if d.family == 'shoc_standard':
        return f"(Some (arakawa_raw {s['nj']} {s['ni']} {arr2(s['xg'])} {arr2(s['yg'])}))"
    if d.family == 'ugrid':
        nx = [x / 8.0 for x, y in s['nodes']]
        ny = [y / 8.0 + s.get('y_off', 0.0) for x, y in s['nodes']]
        return f"(Some (ugrid_raw {arr1(nx)} {arr1(ny)} {to_coq(s['faces'])}))"
    raise ValueError(d.family)


def face_shape(d):
    s = d.spec
    if d.family in ('cf1d', 'cf2d', 'shoc_simple'):
        return [s['ny'], s['nx']]
    if d.family == 'shoc_standard':
        return [s['nj'], s['ni']]
    return [s['nf']]


def ring_of(p):
    c = shapely.get_coordinates(p.exterior)
    return [(float(x), float(y)) for x, y in c[:-1]]


def impl_polygons(ems):
    out = []
    for p in ems.polygons:
        if p is None:
            out.append(None)
        else:
            if not isinstance(p, shapely.Polygon) or len(p.interiors):
                # a cell is one ring of corners: anything else (a MultiPolygon from a "repaired" cell, a ring with a hole) is not
                raise ValueError(f'cell {len(out)} is given the geometry {p.geom_type} with {len(getattr(p, "interiors", []))} holes, '
                                 f'not a plain polygon')
            c = shapely.get_coordinates(p.exterior)
            out.append([(float(x), float(y)) for x, y in c[:-1]])
    return out


def model_polygons_to_float(mp):
    """model value: list of None | Some([(Fraction, Fraction), ...])  ->  floats (correctly rounded)"""
    out = []
    for p in mp:
        if p is None:
            out.append(None)
        else:
            out.append([(float(Fraction(*x)), float(Fraction(*y))) for x, y in p.v])
    return out


def ring_literal(coords):
    return coq_list([f'({coq_q(x)}, {coq_q(y)})' for x, y in coords])
