"""Clipping flows shared by C08 (values) and C09 (validity / geometry): generate datasets on disk, clip them through
the public API (directly, or with a mask saved to netCDF, reloaded and applied to a second dataset with the same
geometry and other data) and collect what came out together with independent expectations."""
from __future__ import annotations

import os
import tempfile
import warnings

import netCDF4
import numpy
import xarray

import emsarray  # noqa: F401
import gen
import polymodel as pm
from coqio import Some, to_coq
from hutil import attempt
from props.c07 import bits_of_arr, geometries, to_shapely

CONN = {'face_node': 'Mesh2_face_nodes', 'edge_node': 'Mesh2_edge_nodes', 'face_edge': 'Mesh2_face_edges',
        'edge_face': 'Mesh2_edge_faces', 'face_face': 'Mesh2_face_links'}
# (row element kind, column element kind) of every connectivity table
ROWCOL = {'face_node': ('face', 'node'), 'face_edge': ('face', 'edge'), 'face_face': ('face', 'face'),
          'edge_face': ('edge', 'face'), 'edge_node': ('edge', 'node')}


UGRID_VARIANTS = [
    dict(supplied={'face_face'}, coords_as_coords=True, fill='attr', start_index=1),
    dict(supplied={'edge_face', 'edge_node'}, coords_as_coords=False, fill='nan', start_index=1),
    dict(supplied={'face_edge', 'edge_node'}, coords_as_coords=True, fill='attr', start_index=0, transposed=True),
    dict(supplied={'edge_node', 'face_edge', 'edge_face', 'face_face'}, coords_as_coords=False, fill='attr', start_index=1),
    dict(supplied=set(), coords_as_coords=True, fill='nan', start_index=0),
    # edges known only through face_edge / edge_face and a declared edge dimension (no edge_node table)
    dict(supplied={'face_edge', 'edge_face'}, coords_as_coords=False, fill='attr', start_index=1, edge_dim_declared=True),
    # a one-based mesh of exactly 9 nodes (3 x 3) kept whole by the clip: the highest one-based node number is a single 9
    dict(supplied={'face_face'}, coords_as_coords=False, fill='attr', start_index=1, nine_nodes=True),
    # edges implied by an edge_face table alone: no edge_dimension attribute, no edge_node table
    dict(supplied={'edge_face'}, coords_as_coords=False, fill='attr', start_index=0, edge_dim_declared=False, transposed=False),
    # index bases mixed within one file (UGRID gives every table its own start_index; a missing attribute means 0): the face-node
    # table one-based, the optional tables zero-based without the attribute
    dict(supplied={'edge_node', 'face_face', 'edge_face'}, coords_as_coords=False, fill='attr', start_index=1,
         bare_zero_based=('face_face', 'edge_node', 'edge_face')),
    dict(),
]


def build_dataset(rng, fam, tmp, tag, *, variant=0):
    """a dataset of the family written to netCDF; returns (DS, path, info about the variables)"""
    kw = {}
    if fam in ('cf2d', 'shoc_simple', 'shoc_standard'):
        kw['invalid'] = False
    if fam == 'ugrid':
        kw['invalid'] = False
        # every run meets each combination that matters for clipping: optional tables, coordinates as xarray
        # coordinates, fill as an attribute; at least 2x2 cells so that a clip can drop something
        kw.update(UGRID_VARIANTS[variant % len(UGRID_VARIANTS)])
        kw.update(w=rng.randint(2, 4), h=rng.randint(2, 3))
        if kw.pop('nine_nodes', False):
            kw.pop('w'), kw.pop('h')
            kw['mesh'] = gen.lattice_mesh(rng, 2, 2, variety=False, drop=False)
    d = gen.any_dataset(rng, fam, **kw)
    if variant % 3 == 2 and fam != 'cf1d':
        # index coordinates with unsorted labels on the grid dimensions (row ids): cells are addressed by position
        d.ds = gen.label_dimensions(rng, d.ds, [x for k in d.spec['kinds'].values() for x in k])
    ds = d.ds
    kinds = d.spec['kinds']
    added = gen.add_data_vars(rng, ds, kinds, names_prefix='c', n_extra_max=2, dtypes=('f8', 'f8', 'i4', 'i4fill', 'i4fill0', 'i4missing'))
    nt = ds.sizes.get('time', 2)
    if fam == 'shoc_simple':
        # SHOC simple files name their time coordinate 'time' (the convention looks it up by name)
        tv = xarray.DataArray(numpy.array(['2000-01-01', '2000-01-02', '2000-01-03'][:nt], dtype='datetime64[ns]'), dims=['time'])
        tv.encoding['units'] = 'days since 1990-01-01 00:00:00 +10:00'
        ds.coords['time'] = tv
    ds['no_grid'] = xarray.DataArray(numpy.arange(nt, dtype='f8') + 0.25, dims=['time'], attrs={'long_name': 'not spatial'})
    # an integer variable whose fill value is zero (every run has one)
    fdims = list(kinds['face'])
    fshape = [ds.sizes[x] for x in fdims]
    ds['zero_fill'] = xarray.DataArray((numpy.arange(int(numpy.prod(fshape)), dtype='i4') + 1).reshape(fshape), dims=fdims,
                                       attrs={'_FillValue': numpy.int32(0)})
    added = added + [('zero_fill', 'face', fdims)]
    # a field that the file stores packed (int16 + scale_factor + add_offset): non-integral physical values
    ds['packed_face'] = xarray.DataArray((numpy.arange(int(numpy.prod(fshape)), dtype='f8') * 0.375 + 9.625).reshape(fshape), dims=fdims,
                                         attrs={'long_name': 'packed on disk'})
    added = added + [('packed_face', 'face', fdims)]
    # a cell measure (CF: named by another variable's cell_measures attribute): an ordinary field on the cells, blanked like any
    ds['cell_area'] = xarray.DataArray((numpy.arange(int(numpy.prod(fshape)), dtype='f8') + 0.5).reshape(fshape), dims=fdims,
                                       attrs={'standard_name': 'cell_area', 'units': 'm2'})
    ds['packed_face'].attrs['cell_measures'] = 'area: cell_area'
    added = added + [('cell_area', 'face', fdims)]
    ds.attrs['history'] = 'generated for clipping'
    ds.attrs['note'] = tag
    return d, added


def write(ds, path, int_connectivity=True, small_edge_face_fill=False, narrow=False):
    enc = {}
    for v in ds.variables:
        a = ds[v]
        if a.dtype.kind == 'f' and '_FillValue' not in a.attrs:
            enc[v] = {'_FillValue': None}
        if str(v) == 'packed_face':
            # stored packed: 16-bit integers with scale_factor / add_offset (every value is exactly representable)
            enc[v] = {'dtype': 'int16', 'scale_factor': 0.125, 'add_offset': 10.0, '_FillValue': numpy.int16(-32768)}
        if int_connectivity and str(v) in CONN.values() and a.dtype.kind == 'f':
            # the usual file: integers with a _FillValue on disk, which xarray decodes to float with NaN
            enc[v] = {'dtype': 'int32', '_FillValue': numpy.int32(999999)}
            if str(v) == CONN['edge_face'] and small_edge_face_fill:
                # a fill value just above the face numbers (and below the number of edges): no face has that number
                enc[v]['_FillValue'] = numpy.int32(ds.sizes['nMesh2_face'] + 2)
            if narrow:
                # tables stored in the narrowest integers that hold the numbers, with a negative fill value (small meshes are
                # written this way to save space); the all-nines fill of the clip does not fit such a type
                top = max(ds.sizes[x] for x in ds[v].dims) + 2
                enc[v] = ({'dtype': 'int8', '_FillValue': numpy.int8(-99)} if top < 120
                          else {'dtype': 'int16', '_FillValue': numpy.int16(-999)})
    if narrow:
        # integer tables carrying their own _FillValue attribute: the same, in the narrow type
        ds = ds.copy()
        for v in list(ds.variables):
            a = ds[v]
            if str(v) in CONN.values() and a.dtype.kind == 'i':
                top = max(ds.sizes[x] for x in a.dims) + 2
                nt, nf = (numpy.int8, -99) if top < 120 else (numpy.int16, -999)
                vals = a.values
                attrs = dict(a.attrs)
                if '_FillValue' in attrs:
                    vals = numpy.where(vals == attrs['_FillValue'], nf, vals)
                    attrs['_FillValue'] = nt(nf)
                if 'start_index' in attrs:
                    attrs['start_index'] = nt(attrs['start_index'])
                ds[v] = (a.dims, vals.astype(nt), attrs)
    with warnings.catch_warnings():
        warnings.simplefilter('ignore')
        ds.to_netcdf(path, encoding=enc)


def other_data(ds, added):
    """the same geometry, different data"""
    out = ds.copy(deep=True)
    for name, kind, dims in added:
        a = out[name]
        vals = a.values.copy()
        if vals.dtype.kind == 'f':
            vals = vals + 5000.0
        else:
            vals = vals + 5000
        out[name] = (a.dims, vals, a.attrs)
    return out


def add_memory_vars(ds, d):
    """variables created in memory after opening (no on-disk encoding yet): 64-bit identifiers beyond the 32-bit range
    (cannot hold a missing value: cropped, never altered) and a single-precision field"""
    fdims = list(d.spec['kinds']['face'])
    shape = [ds.sizes[x] for x in fdims]
    n = int(numpy.prod(shape))
    ds['mem_cell_id'] = xarray.DataArray((numpy.arange(n, dtype='i8') * 1000003 + 1_700_000_000_000).reshape(shape), dims=fdims,
                                         attrs={'long_name': 'global cell identifier'})
    ds['mem_f4'] = xarray.DataArray((numpy.arange(n, dtype='f4') / 8 + 3).reshape(shape), dims=fdims)
    # a date per cell (time of the last observation): can hold a missing value, so it is blanked outside the region
    ds['mem_when'] = xarray.DataArray((numpy.datetime64('2020-01-01T00:00:00', 'ns') + numpy.arange(n) * numpy.timedelta64(3600, 's')).reshape(shape),
                                      dims=fdims, attrs={'long_name': 'time of last observation'})
    return ds


def raw_var(path, name):
    with netCDF4.Dataset(path) as nc:
        nc.set_auto_maskandscale(False)
        v = nc.variables[name]
        return str(v.dtype), {k: v.getncattr(k) for k in v.ncattrs()}, v[...]


def opt_rows(ma):
    ma = numpy.ma.asarray(ma)
    mask = numpy.ma.getmaskarray(ma)
    data = numpy.ma.getdata(ma)
    return [[None if mask[r, c] else Some(int(data[r, c])) for c in range(ma.shape[1])] for r in range(ma.shape[0])]


def tab_of(mask_ds, name):
    v = numpy.asarray(mask_ds[name].values, dtype='f8')
    return [None if x != x else Some(int(x)) for x in v]


class Flow:
    """one clip: inputs, outputs and what is needed to judge them"""


def flows(ctx, n_ds, quick):
    rng = ctx.rng
    tmp = tempfile.mkdtemp(prefix=f'{ctx.pid.lower()}_clip_', dir=os.environ.get('VERIF_WORK', '/verif/work'))
    out = []
    for n in range(n_ds):
        fam = gen.FAMILIES[n % len(gen.FAMILIES)]
        d, added = build_dataset(rng, fam, tmp, f'ds{n}', variant=n // len(gen.FAMILIES))
        src = os.path.join(tmp, f'src_{n}.nc')
        int_conn = rng.random() < 0.6
        small_fill = fam == 'ugrid' and (n // len(gen.FAMILIES)) % 2 == 1
        narrow = fam == 'ugrid' and (n // len(gen.FAMILIES)) % 4 == 2
        if small_fill or narrow:
            int_conn = True
        write(d.ds, src, int_conn, small_fill, narrow)
        raw_mode = rng.random() < 0.25 or ((n // len(gen.FAMILIES)) % 3 == (0 if fam == 'ugrid' else 1))          # opened with mask_and_scale=False: integer fill attributes stay attributes
        open_kw = {'mask_and_scale': False} if raw_mode else {}
        with warnings.catch_warnings():
            warnings.simplefilter('ignore')
            ds = emsarray.open_dataset(src, **open_kw)
            ds.load()
            if n % 2 == 0:
                ds = add_memory_vars(ds, d)
            r = attempt(lambda: pm.impl_polygons(ds.ems))
        if r[0] != 'ok':
            ctx.report('property', f'polygons of a dataset read back from netCDF failed: {r[1]}', {'dataset': d.spec['label']})
            continue
        polys = r[1]
        if not any(p is not None for p in polys):
            continue
        ds_before = ds.copy(deep=True)
        geoms = [g for g in geometries(rng, polys, 4) if g[0] != 'miss']
        rng.shuffle(geoms)
        # meshes always meet the region that leaves out one cell in the middle (a face dropped with all its nodes kept)
        geoms.sort(key=lambda g: 0 if (fam == 'ugrid' and g[0] == 'around_one_cell') else (1 if (fam == 'ugrid' and g[0] == 'two_cells_apart') else 2))
        if fam == 'ugrid' and len(polys) == 4 and d.spec.get('start_index') == 1:
            # the nine-node mesh is also clipped to a region that keeps all of it
            geoms.sort(key=lambda g: 0 if g[0] == 'cover' else 1)
            if geoms[0][0] != 'cover':
                xs_ = [x for p in polys if p for x, y in p]
                ys_ = [y for p in polys if p for x, y in p]
                geoms.insert(0, ('cover', [('ring', [(min(xs_) - 1, min(ys_) - 1), (max(xs_) + 1, min(ys_) - 1), (max(xs_) + 1, max(ys_) + 1),
                                                      (min(xs_) - 1, max(ys_) + 1)])]))
        for gi, (tag, parts) in enumerate(geoms[:((3 if (fam == 'ugrid' or n % 3 == 0) else 2) if quick else 4)]):
            g = to_shapely(parts)
            shp = [None if p is None else __import__('shapely').Polygon(p) for p in polys]
            if not any(p is not None and p.intersects(g) for p in shp):
                continue
            buffer = 0 if gi == 0 else rng.choice([0, 1, 2])
            if fam != 'ugrid' and n % 3 == 0 and gi >= 1:
                buffer = 1          # two regions grown by the same amount on the same grid, one after the other
            history = rng.choice(['direct', 'direct', 'saved_mask'])
            f = Flow()
            f.d, f.added, f.src, f.ds, f.polys, f.geom, f.tag, f.parts, f.buffer, f.history = d, added, src, ds, polys, g, tag, parts, buffer, history
            f.raw_mode = raw_mode
            f.case = {'dataset': d.spec['label'], 'geometry': tag, 'parts': parts, 'buffer': buffer, 'history': history,
                      'mask_and_scale': not raw_mode}
            with warnings.catch_warnings():
                warnings.simplefilter('ignore')
                r = attempt(lambda: ds.ems.make_clip_mask(g, buffer))
                if r[0] != 'ok':
                    f.error = f'make_clip_mask failed: {r[1]}'
                    out.append(f)
                    continue
                mask = r[1]
                target = ds
                if history == 'saved_mask':
                    mpath = os.path.join(tmp, f'mask_{n}_{len(out)}.nc')
                    r = attempt(lambda: mask.to_netcdf(mpath))
                    if r[0] != 'ok':
                        f.error = f'saving the clip mask failed: {r[1]}'
                        out.append(f)
                        continue
                    mask = xarray.open_dataset(mpath)
                    mask.load()
                    second = other_data(d.ds, added)
                    spath = os.path.join(tmp, f'second_{n}_{len(out)}.nc')
                    write(second, spath, int_conn, small_fill, narrow)
                    target = emsarray.open_dataset(spath, **open_kw)
                    target.load()
                    if n % 2 == 0:
                        target = add_memory_vars(target, d)
                mask_copy = mask.copy(deep=True)
                f.mask, f.target = mask_copy, target
                work = tempfile.mkdtemp(prefix='work_', dir=tmp)
                try:
                    r = ('ok', target.ems.apply_clip_mask(mask, work))
                except Exception as e:      # noqa: BLE001
                    import traceback
                    r = ('err', f'{type(e).__name__}: {e} | ' + ' <- '.join(
                        f'{fr.name}:{fr.lineno}' for fr in traceback.extract_tb(e.__traceback__)[-4:]))
                if r[0] != 'ok':
                    f.error = f'apply_clip_mask failed: {r[1]}'
                    out.append(f)
                    continue
                res = r[1]
                # the mask that was applied is the caller's and is left as it was (it may be applied again, to this dataset or
                # the next one of the same model)
                same_mask = all(v_ in mask.variables and numpy.array_equal(numpy.asarray(mask[v_].values, dtype='f8'), numpy.asarray(mask_copy[v_].values, dtype='f8'), equal_nan=True)
                                for v_ in mask_copy.variables)
                if not same_mask:
                    f.error = 'apply_clip_mask modified the clip mask it was given: applied again, the mask selects something else'
                    out.append(f)
                    continue
                if history == 'direct':
                    # the mask is the caller's: he blanks it, and asks the same question again - the answer is the mask as before
                    for v_ in mask.data_vars:
                        if mask[v_].dtype.kind == 'b':
                            try:
                                mask[v_].values[...] = False
                            except ValueError:
                                pass
                    again = attempt(lambda: ds.ems.make_clip_mask(g, buffer))
                    if again[0] != 'ok' or not again[1].equals(mask_copy):
                        ctx.report('property', 'the same clip region asked for again, after the caller blanked the mask he was given the '
                                   'first time, gives another mask', f.case)
                r = attempt(res.load)
                if r[0] != 'ok':
                    f.error = f'loading the clipped dataset failed: {r[1]}'
                    out.append(f)
                    continue
                f.out = res
                f.error = None
                # saved and reopened as the same convention
                spath = os.path.join(tmp, f'clipped_{n}_{len(out)}.nc')
                try:
                    res.ems.to_netcdf(spath)
                    r = ('ok', None)
                except Exception as e:      # noqa: BLE001
                    r = ('err', f'{type(e).__name__}: {str(e)[:300]}')
                f.saved = spath if r[0] == 'ok' else None
                f.save_error = None if r[0] == 'ok' else r[1]
            out.append(f)
        if not ds.identical(ds_before):
            ctx.report('property', 'clipping modified the dataset that was clipped (its variables, coordinates or attributes differ from '
                       'what was opened)', {'dataset': d.spec['label'], 'mask_and_scale': not raw_mode})
    return out, tmp


# ---------------------------------------------------------------------------------------------------------------
# independent expectations

def grid_masks(f):
    """[(mask name, dims, bool array)] in the mask dataset's order"""
    return [(str(k), list(v.dims), numpy.asarray(v.values, dtype=bool)) for k, v in f.mask.data_vars.items()]


def grid_bounds(masks):
    b = {}
    for name, dims, arr in masks:
        for ax, dname in enumerate(dims):
            other = tuple(a for a in range(arr.ndim) if a != ax)
            hit = arr.any(axis=other)
            idx = numpy.flatnonzero(hit)
            b[dname] = (int(idx[0]), int(idx[-1]) + 1)
    return b


def expected_grid_var(f, name, masks, bounds):
    """what the property says the clipped variable holds (labelled array), or ('unmaskable', cropped)"""
    a = f.target[name]
    sel = {dname: slice(*bounds[dname]) for dname in a.dims if dname in bounds}
    cropped = a.isel(sel)
    use = None
    for mname, mdims, arr in masks:
        if set(mdims) <= set(a.dims):
            use = (mname, mdims, arr)
            break
    if use is None or name in f.target.coords:
        return 'untouched', cropped, None
    vals = cropped.values
    if vals.dtype.kind == 'f':
        fill = numpy.nan
    elif vals.dtype.kind in 'Mm':
        # dates and durations have a missing value of their own (NaT)
        mname, mdims, arr = use
        m = xarray.DataArray(arr, dims=mdims).isel({dname: slice(*bounds[dname]) for dname in mdims})
        return 'masked', cropped.where(m), mname
    elif '_FillValue' in a.attrs:
        fill = a.attrs['_FillValue']
    elif 'missing_value' in a.attrs:
        fill = a.attrs['missing_value']
    else:
        return 'unmaskable', cropped, use[0]
    mname, mdims, arr = use
    m = xarray.DataArray(arr, dims=mdims).isel({dname: slice(*bounds[dname]) for dname in mdims})
    want = cropped.where(m, other=fill)
    if vals.dtype.kind != 'f':
        # the clipped pieces are written to netCDF and read back with xarray's default decoding: cells holding the
        # fill value come back as missing (NaN) - compare decoded values
        want = want.astype('f8').where(want != fill)
        want = cf_unpack(want, a.attrs)
    return 'masked', want, mname


def cf_unpack(values, attrs):
    """CF unpacking of undecoded values (dataset opened with mask_and_scale=False): the clipped pieces go through netCDF files
    that are read back with the default decoding"""
    if 'scale_factor' in attrs or 'add_offset' in attrs:
        return values * float(attrs.get('scale_factor', 1.0)) + float(attrs.get('add_offset', 0.0))
    return values


def same_values(a, b):
    a, b = numpy.asarray(a), numpy.asarray(b)
    if a.shape != b.shape:
        return False
    if a.dtype.kind in 'Mm' or b.dtype.kind in 'Mm':
        if a.dtype.kind != b.dtype.kind:
            return False
        return bool(((a == b) | (numpy.isnat(a) & numpy.isnat(b))).all())
    if a.dtype.kind == 'f' or b.dtype.kind == 'f':
        return bool(numpy.array_equal(a.astype('f8'), b.astype('f8'), equal_nan=True))
    return bool(numpy.array_equal(a, b))


def mask_bits_expr(masks):
    return '[' + '; '.join(f'clip_plan {arr.shape[0]} {arr.shape[1]} {bits_of_arr(arr)}' for _, _, arr in masks) + ']'


def mask_plan_python(masks, bounds):
    out = []
    for name, dims, arr in masks:
        (lj, hj), (li, hi) = bounds[dims[0]], bounds[dims[1]]
        out.append(Some(((((lj, hj), li), hi), bits_of_arr(arr[lj:hj, li:hi]))))
    return out
