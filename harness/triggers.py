"""Machine-checkable trigger predicates of the known findings (see known_findings.json)."""
