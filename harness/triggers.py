"""Machine-checkable trigger predicates of the known findings (see known_findings.json).
Each takes the violation record (property, leg, what, case, ...) and decides whether it is that finding."""


def c06_bounds_invalid_cell(rec):
    case = rec.get('case') or {}
    return (rec['what'].startswith('bounds ') and case.get('family') in ('cf2d', 'shoc_simple')
            and bool(case.get('invalid_cells')))


def c06_bounds_invalid_face_ugrid(rec):
    case = rec.get('case') or {}
    return rec['what'].startswith('bounds ') and case.get('family') == 'ugrid' and bool(case.get('invalid_cells'))


def c10_edge_face_only(rec):
    """edge_face_connectivity supplied, but neither edge_node nor face_edge: nothing in the file says which node pair
    edge e is, the code numbers the derived edge_node / face_edge rows on its own and the supplied edge_face rows
    (file numbering) no longer line up with them"""
    case = rec.get('case') or {}
    sup = set(case.get('supplied') or [])
    return ('edge_face' in sup and 'edge_node' not in sup and 'face_edge' not in sup
            and rec['what'].startswith('tables disagree'))


def c16_marshal_object_state(rec):
    """every geometry variable (name, dtype, shape, values) and every attribute is equal - checked on the canonical
    rendering before this report is made - yet the hashed bytes differ: marshal.dumps(attrs, 4) encodes reference
    counts (FLAG_REF) and string interning of the attribute objects"""
    case = rec.get('case') or {}
    return case.get('kind') == 'object_state'
