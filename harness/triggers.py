"""Machine-checkable trigger predicates of the known findings (see known_findings.json).
Each takes the violation record (property, leg, what, case, ...) and decides whether it is that finding."""


def c06_bounds_invalid_cell(rec):
    case = rec.get('case') or {}
    return (rec['what'].startswith('bounds ') and case.get('family') in ('cf2d', 'shoc_simple')
            and bool(case.get('invalid_cells')))


def c06_bounds_invalid_face_ugrid(rec):
    case = rec.get('case') or {}
    return rec['what'].startswith('bounds ') and case.get('family') == 'ugrid' and bool(case.get('invalid_cells'))
