"""Less common but legal ways of holding the same dataset, and one oracle for all of them: what emsarray answers for a
dataset depends on its content only - not on the file it was read from, on whether it was loaded, on the decoding options,
on the byte order or memory layout of its arrays, or on what was asked of another dataset before.

`variants(rng, d, tmp, tag)` yields (name, dataset, reference) triples: `dataset` is the unusual holder, `reference` a plain
in-memory dataset with the same content (native little-endian arrays, no file behind it).  A check observes both through the
public API and reports when the observations differ.
"""
import os
import warnings

import numpy
import xarray

import emsarray
import gen

CONN_ROLES = ('face_node_connectivity', 'edge_node_connectivity', 'face_edge_connectivity', 'edge_face_connectivity',
              'face_face_connectivity')


def detached(ds):
    """the same content with no file behind it"""
    out = ds.load().copy(deep=True)
    out.encoding = {}
    for v in out.variables:
        # (each variable remembers the file as well, and how it was stored there: only what says how to read its numbers stays)
        out[v].encoding = {k: x for k, x in out[v].encoding.items() if k in ('units', 'calendar')}
    return out


def write_file(ds, path, fill=-1, code_data=True):
    enc = {}
    # integer tables that carry their own padding value: the same tables padded with `fill`
    copied = False
    for v in list(ds.data_vars):
        a = ds[v]
        if a.attrs.get('cf_role') in CONN_ROLES and a.dtype.kind == 'i' and '_FillValue' in a.attrs:
            if not copied:
                ds = ds.copy(deep=True)
                copied = True
            vals = numpy.where(a.values == a.attrs['_FillValue'], fill, a.values).astype(a.dtype)
            ds[v] = (a.dims, vals, dict(a.attrs, _FillValue=a.dtype.type(fill)))
    for v in ds.variables:
        a = ds[v]
        if code_data and str(v).startswith('tv_') and a.dtype.kind == 'f' and numpy.array_equal(numpy.nan_to_num(a.values), numpy.round(numpy.nan_to_num(a.values))):
            # whole-number data stored as 32-bit integers with a fill value: decoded to floating point with NaN on reading
            enc[v] = {'dtype': 'int32', '_FillValue': numpy.int32(-999)}
            continue
        if a.attrs.get('positive') in ('up', 'down') and a.dtype.kind == 'f':
            continue        # the depth coordinate gets the writer's default fill value (NaN), as files written by xarray have it
        if a.attrs.get('cf_role') in CONN_ROLES and a.dtype.kind == 'f':
            # the usual file: integer tables padded with a fill value (here -1, as many mesh generators write it)
            enc[v] = {'dtype': 'int32', '_FillValue': numpy.int32(fill)}
        elif a.dtype.kind == 'f' and '_FillValue' not in a.attrs:
            enc[v] = {'_FillValue': None}
    with warnings.catch_warnings():
        warnings.simplefilter('ignore')
        ds.to_netcdf(path, encoding=enc)


def big_endian(ds):
    out = ds.copy(deep=True)
    for v in list(out.variables):
        a = out[v]
        if a.dtype.kind in 'fi' and a.dtype.itemsize > 1:
            new = xarray.Variable(a.dims, a.values.astype(a.dtype.newbyteorder('>')), a.attrs, a.encoding)
            out = out.assign_coords({v: new}) if v in out.coords else out.assign({v: new})
    out.encoding = dict(ds.encoding)
    return out


def reverse_data(ds, geometry_names):
    """every variable that is not geometry reversed along its first dimension (same dimensions, other values per cell)"""
    out = ds
    for v in list(ds.data_vars):
        a = ds[v]
        if str(v) in geometry_names or a.ndim == 0 or a.attrs.get('cf_role') or str(v) == 'Mesh2':
            continue
        new = xarray.Variable(a.dims, a.values[::-1].copy(), a.attrs, a.encoding)
        out = out.assign({v: new})
    out.encoding = dict(ds.encoding)
    return out


def variants(rng, d, tmp, tag, which=('lazy', 'raw', 'view_of_file', 'big_endian', 'transposed_view'), fill=-1):
    """(name, dataset, reference, whole-file-or-None) for the dataset d.ds (a gen.DS)"""
    base = d.ds
    path = os.path.join(tmp, f'traits_{tag}.nc')
    opened = None
    with warnings.catch_warnings():
        warnings.simplefilter('ignore')
        geometry_names = {str(x) for x in base.ems.get_all_geometry_names()}
        # (bounds variables go with their coordinate, whichever coordinate that is: CF fixes the order of their dimensions)
        for nm in base.variables:
            b = base[nm].attrs.get('bounds')
            if b:
                geometry_names.add(str(b))
    if any(w in which for w in ('lazy', 'raw', 'view_of_file', 'chunked')):
        write_file(base, path, fill=fill)
    with warnings.catch_warnings():
        warnings.simplefilter('ignore')
        if 'lazy' in which:
            # opened and not loaded: backend arrays read on demand
            opened = emsarray.open_dataset(path)
            ref = detached(emsarray.open_dataset(path))
            yield 'opened from a file, not loaded', opened, ref, None
        if 'lazy' in which and d.family != 'ugrid':
            # (not for meshes: xarray takes the UGRID attribute `node_coordinates` for the CF geometry-container attribute of the same
            # name and moves it to the encoding too; emsarray then refuses the mesh loudly - KeyError - which is no wrong answer)
            # opened with decode_coords='all': xarray makes the variables named by `bounds` (and `coordinates`, `grid_mapping` ...)
            # attributes coordinates of the dataset and moves those attributes to the encodings
            try:
                dca = emsarray.open_dataset(path, decode_coords='all')
            except Exception:       # noqa: BLE001
                dca = None
            if dca is not None:
                yield "opened with decode_coords='all' (bounds variables become coordinates, the bounds attribute moves to the encoding)", dca, detached(emsarray.open_dataset(path)), None
        if 'raw' in which:
            # (data variables are stored as they are here: undecoded integers are not the numbers they stand for)
            rpath = path[:-3] + '_plain_data.nc'
            write_file(base, rpath, fill=fill, code_data=False)
            raw = emsarray.open_dataset(rpath, mask_and_scale=False)
            ref = detached(emsarray.open_dataset(rpath))
            yield f'opened with mask_and_scale=False (integer tables padded with {fill})', raw, ref, None
        if 'raw_unsigned' in which and d.family == 'ugrid':
            # the same tables stored unsigned (padding: the largest value of the type), opened without decoding
            upath = path[:-3] + '_unsigned.nc'
            ub = base.copy(deep=True)
            uenc = {}
            for v in list(ub.variables):
                a = ub[v]
                if a.attrs.get('cf_role') in CONN_ROLES:
                    vals = a.values
                    if a.dtype.kind == 'f':
                        vals = numpy.where(numpy.isnan(vals), 4294967295, vals)
                    elif '_FillValue' in a.attrs:
                        vals = numpy.where(vals == a.attrs['_FillValue'], 4294967295, vals.astype('i8'))
                    attrs = {k: x for k, x in a.attrs.items() if k != '_FillValue'}
                    if 'start_index' in attrs:
                        attrs['start_index'] = numpy.uint32(attrs['start_index'])
                    ub[v] = (a.dims, vals.astype('u4'), attrs)
                    uenc[v] = {'_FillValue': numpy.uint32(4294967295)}
                elif a.dtype.kind == 'f' and '_FillValue' not in a.attrs:
                    uenc[v] = {'_FillValue': None}
            ub.to_netcdf(upath, encoding=uenc)
            yield ('unsigned connectivity tables (padding 4294967295) opened with mask_and_scale=False',
                   emsarray.open_dataset(upath, mask_and_scale=False), detached(emsarray.open_dataset(upath)), None)
        if 'chunked' in which:
            gd = list(d.spec['kinds']['face'])
            ch = emsarray.open_dataset(path, chunks={gd[-1]: 2})
            ref = detached(emsarray.open_dataset(path))
            yield 'opened in dask chunks of two along the last surface dimension', ch, ref, None
        if 'view_of_file' in which:
            # the file is used first (whatever is remembered about it is remembered now); then a dataset derived from it - the
            # same model moved one degree east, its data reversed along their first dimension - which keeps the file name in its
            # encoding, is asked the same questions
            whole = opened if opened is not None else emsarray.open_dataset(path)
            moved = reverse_data(gen.shift_coordinates(whole, dlon=1.0), geometry_names)
            moved.encoding = dict(whole.encoding)
            ref = detached(reverse_data(gen.shift_coordinates(emsarray.open_dataset(path), dlon=1.0), geometry_names))
            yield ('derived from an opened file (moved one degree east, data reversed along their first dimension) after the file '
                   'itself was used'), moved, ref, whole
        if 'big_endian' in which:
            yield 'arrays in big-endian byte order', big_endian(base), base.copy(deep=True), None
        if 'mixed_precision' in which and (d.family in ('ugrid', 'shoc_standard', 'cf1d') or d.spec.get('bounds')):
            # every coordinate moved by 2^-30 of a degree (digits single precision cannot hold); then the longitudes themselves
            # (not their bounds) held in single precision next to double precision latitudes and bounds.  The reference holds the
            # same numbers, all in double precision: the type a number is held in says nothing about the grid
            moved = gen.shift_coordinates(base, dlat=2.0 ** -30)
            bounds_names = {str(moved[v].attrs.get('bounds')) for v in moved.variables}
            # (the longitudes themselves stay on eighths of a degree, exact in either precision - arithmetic on them must not
            # differ between the two holders; their stored bounds get the extra digits)
            for v in list(moved.variables):
                a = moved[v]
                b = a.attrs.get('bounds')
                if b in moved.variables and moved[b].dtype == numpy.float64 and (
                        a.attrs.get('units') == 'degrees_east' or a.attrs.get('standard_name') == 'longitude' or a.attrs.get('axis') == 'X'):
                    nb = xarray.Variable(moved[b].dims, moved[b].values + 2.0 ** -30, moved[b].attrs, moved[b].encoding)
                    moved = moved.assign_coords({b: nb}) if b in moved.coords else moved.assign({b: nb})
            mp, ref = moved.copy(deep=True), moved.copy(deep=True)
            for v in list(moved.variables):
                a = moved[v]
                if a.dtype == numpy.float64 and str(v) not in bounds_names and (
                        a.attrs.get('units') == 'degrees_east' or a.attrs.get('standard_name') == 'longitude' or a.attrs.get('axis') == 'X'):
                    lo = xarray.Variable(a.dims, a.values.astype('f4'), a.attrs, a.encoding)
                    hi = xarray.Variable(a.dims, a.values.astype('f4').astype('f8'), a.attrs, a.encoding)
                    mp = mp.assign_coords({v: lo}) if v in moved.coords else mp.assign({v: lo})
                    ref = ref.assign_coords({v: hi}) if v in moved.coords else ref.assign({v: hi})
            yield 'longitudes held in single precision next to double precision latitudes and bounds', mp, ref, None
            # stored longitude bounds in single precision too (their values are exact in it), next to double precision latitudes and
            # latitude bounds that carry digits single precision cannot hold
            moved2 = gen.shift_coordinates(base, dlat=2.0 ** -30)
            mp2, changed2 = moved2.copy(deep=True), False
            for v in list(moved2.variables):
                a = moved2[v]
                if a.attrs.get('units') == 'degrees_east' or a.attrs.get('standard_name') == 'longitude' or a.attrs.get('axis') == 'X':
                    for nm_ in (str(v), a.attrs.get('bounds')):
                        if nm_ in moved2.variables and moved2[nm_].dtype == numpy.float64:
                            vals_ = moved2[nm_].values
                            if numpy.array_equal(vals_.astype('f4').astype('f8'), vals_, equal_nan=True):
                                lo = xarray.Variable(moved2[nm_].dims, vals_.astype('f4'), moved2[nm_].attrs, moved2[nm_].encoding)
                                mp2 = mp2.assign_coords({nm_: lo}) if nm_ in moved2.coords else mp2.assign({nm_: lo})
                                changed2 = changed2 or nm_ != str(v)
            if changed2:
                yield ('longitudes and their stored bounds held in single precision (exactly) next to double precision latitudes',
                       mp2, moved2.copy(deep=True), None)
        if 'narrow_tables' in which and d.family == 'ugrid':
            # integer connectivity tables held in the narrowest signed type that fits (numbers below 127): padding is -1
            nt = base.copy(deep=True)
            changed = False
            for v in list(nt.data_vars):
                a = nt[v]
                if a.attrs.get('cf_role') in CONN_ROLES and a.dtype.kind == 'i':
                    vals = a.values.copy()
                    attrs = dict(a.attrs)
                    if '_FillValue' in attrs:
                        vals = numpy.where(vals == attrs['_FillValue'], -1, vals)
                        attrs['_FillValue'] = numpy.int8(-1)
                    if vals.max() < 127:
                        if 'start_index' in attrs:
                            attrs['start_index'] = numpy.int8(attrs['start_index'])
                        nt[v] = (a.dims, vals.astype('i1'), attrs)
                        changed = True
            if changed:
                yield 'integer connectivity tables held as signed bytes (padding -1)', nt, base.copy(deep=True), None
        if 'explicit_options' in which and d is not None and len(d.spec['kinds'].get('face', [])) == 2:
            # the first variable of the dataset spans the grid with its surface dimensions the other way round (x before y), so
            # the dataset meets its dimensions in that order; the same variable at the end of the reference
            lv = gen.leading_reversed_var(rng, base.copy(deep=True), d.spec['kinds'])
            ref = base.copy(deep=True)
            ref['aaa_first'] = lv['aaa_first'].copy(deep=True)
            yield 'whose first variable is stored x-major (the dataset meets the x dimension before the y dimension)', lv, ref, None
        if 'explicit_options' in which and d is not None:
            # every grid dimension carries an index coordinate whose labels are a permutation of the positions (row ids, station
            # numbers): positions, not labels, say which cell is which
            lab = base.copy(deep=True)
            done = []
            for k_, x in enumerate(sorted({str(x) for dims_ in d.spec['kinds'].values() for x in dims_})):
                if x in base.coords or x not in base.sizes or x in ('lat', 'lon', 'latitude', 'longitude', 'x', 'y'):
                    continue
                labels = list(range(base.sizes[x]))
                rng.shuffle(labels)
                if labels == sorted(labels) and len(labels) > 1:
                    labels = labels[1:] + labels[:1]
                lab = lab.assign_coords({x: (x, numpy.array(labels, dtype='i4'), {'long_name': f'{x} label'})})
                done.append(x)
            if done:
                yield (f'whose grid dimensions {done} carry index coordinates with permuted labels', lab, base.copy(deep=True), None)
            # the geometry variables (bounds, connectivity tables, coordinate variables) held as xarray coordinates, as after
            # set_coords or when a file lists them in a `coordinates` attribute
            with warnings.catch_warnings():
                warnings.simplefilter('ignore')
                # (not the connectivity tables of a mesh: emsarray looks those up among the data variables and refuses - loudly, with
                # KeyError - a mesh that holds them as coordinates; UGRID files do not do that)
                gnames = [str(x) for x in base.ems.get_all_geometry_names() if str(x) in base.data_vars and base[str(x)].ndim >= 1
                          and not str(base[str(x)].attrs.get('cf_role', '')).endswith('_connectivity')]
            if gnames:
                yield (f'whose geometry variables {sorted(gnames)[:4]}{"..." if len(gnames) > 4 else ""} are held as xarray coordinates',
                       base.copy(deep=True).set_coords(gnames), base.copy(deep=True), None)
        if 'explicit_options' in which:
            # the convention made explicitly from its documented keyword options instead of being detected
            import emsarray.conventions.arakawa_c as A
            import emsarray.conventions.grid as G
            conv = base.ems
            if isinstance(conv, G.CFGrid):
                eo = base.copy(deep=True)
                type(conv)(eo, latitude=conv.topology.latitude_name, longitude=conv.topology.longitude_name).bind()
                yield ('bound explicitly with the latitude= and longitude= options naming its coordinate variables',
                       eo, base.copy(deep=True), None)
            elif isinstance(conv, A.ArakawaC):
                # the eight coordinate variables under other names, told to the convention with the kinds listed in another order
                names = {k.value: (str(a), str(b)) for k, (a, b) in conv.coordinate_names.items()}
                rename = {n: f'geo_{n}' for pair in names.values() for n in pair}
                eo = base.copy(deep=True).rename(rename)
                order = list(names)
                rng.shuffle(order)
                if order[0] == 'face':
                    order = order[1:] + order[:1]
                type(conv)(eo, coordinate_names={k: (rename[names[k][0]], rename[names[k][1]]) for k in order}).bind()
                yield (f'with its coordinate variables renamed and told to the convention through coordinate_names= (kinds listed as '
                       f'{order})', eo, base.copy(deep=True), None)
        if 'transposed_view' in which:
            # data variables as transposed views of the same memory (dimensions reversed, column-major layout); geometry as it is
            tv = base.copy(deep=False)
            for v in list(base.data_vars):
                if str(v) not in geometry_names and base[v].ndim >= 2 and not base[v].attrs.get('cf_role'):
                    tv[v] = base[v].transpose()
            yield 'data variables held as transposed views (dimensions reversed, column-major memory)', tv, base.copy(deep=True), None


def same(a, b):
    """structural equality of observations (nested lists / tuples / dicts of numbers, None, strings); NaN equals NaN"""
    if isinstance(a, (list, tuple)) and isinstance(b, (list, tuple)):
        return len(a) == len(b) and all(same(x, y) for x, y in zip(a, b))
    if isinstance(a, dict) and isinstance(b, dict):
        return a.keys() == b.keys() and all(same(a[k], b[k]) for k in a)
    if isinstance(a, float) and isinstance(b, float):
        return a == b or (a != a and b != b)
    return a == b


def first_difference(a, b, path=''):
    if isinstance(a, (list, tuple)) and isinstance(b, (list, tuple)):
        if len(a) != len(b):
            return f'{path}: {len(a)} entries against {len(b)}'
        for k, (x, y) in enumerate(zip(a, b)):
            r = first_difference(x, y, f'{path}[{k}]')
            if r:
                return r
        return None
    if isinstance(a, dict) and isinstance(b, dict):
        if a.keys() != b.keys():
            return f'{path}: keys {sorted(map(str, a))} against {sorted(map(str, b))}'
        for k in a:
            r = first_difference(a[k], b[k], f'{path}.{k}')
            if r:
                return r
        return None
    return None if same(a, b) else f'{path}: {a!r} against {b!r}'


def leg(ctx, rng, tmp, observe, what, families, which=None, n_per_family=1, prime=None, dataset_kw=None, prepare=None):
    """run `observe` on every variant of generated datasets and on its plain reference; report differences.
    observe(ds) -> observation (nested lists of plain values); prime(ds): what is asked of the whole file first;
    prepare(rng, d): add what the observation needs to d.ds (data variables, a depth axis ...)"""
    kw = {} if which is None else {'which': which}
    count = 0
    guards = []
    for fam_pos, fam in enumerate(families):
        for rep in range(n_per_family):
            if fam in ('cf1d_desc', 'cf1d_int', 'cf1d_bounds'):
                d = gen.cf1d(rng, ny=rng.randint(3, 5), nx=rng.randint(3, 5), bounds=(fam == 'cf1d_bounds'))
                sp = d.spec
                if fam == 'cf1d_desc' and sp['lat'][0] < sp['lat'][-1]:
                    # latitudes listed north to south (a reversed isel view of the dataset), no stored bounds
                    d.ds = d.ds.isel({sp['ydim']: slice(None, None, -1)})
                    sp['lat'] = list(reversed(sp['lat']))
                    sp['label'] += ' rows reversed'
                if fam == 'cf1d_int':
                    # whole-degree coordinates held as 32-bit integers, no stored bounds: cell edges at the half degrees
                    for key, nm in (('lat', sp['latname']), ('lon', sp['lonname'])):
                        start, step = rng.randint(-30, 30), rng.choice([1, 3, -1])
                        ints = [start + step * k for k in range(len(sp[key]))]
                        var = d.ds[nm]
                        new = xarray.Variable(var.dims, numpy.array(ints, dtype='i4'), var.attrs)
                        d.ds = d.ds.assign_coords({nm: new}) if nm in d.ds.coords else d.ds.assign({nm: new})
                        sp[key] = [float(v) for v in ints]
                    sp['label'] += ' integer coordinates'
            elif fam == 'cf2d_river':
                # a curvilinear grid without stored bounds around one-cell-wide channels (cells hemmed in by missing cells)
                d = gen.cf2d(rng, ny=5, nx=4, holes=rng.choice(['river', 'river_i']), bounds=False, invalid=False)
            elif fam == 'ugrid_quads1':
                # all quadrilaterals, numbered from one, integer tables that need no padding (so none is declared): the arrays the
                # convention works on can be the dataset's own
                # (no optional table, no fill declared, in every run: C04-o3 - the conversion to zero-based done in place - had been
                # caught only when the generator happened to declare no fill)
                rng.random()
                d = gen.ugrid(rng, mesh=gen.lattice_mesh(rng, 3, 2, variety=False, drop=False), invalid=False, supplied=set(),
                              start_index=1, fill='none', transposed=False)
            elif fam == 'ugrid_edges':
                # a one-based mesh that names an edge dimension and stores nothing on edges: the edges are derived
                d = gen.ugrid(rng, w=6, h=4, invalid=False, supplied=set(), edge_dim_declared=True, phantom_edge_dim=True,
                              start_index=1, fill='attr')
            elif fam == 'shoc_standard_thirds':
                # node coordinates with more digits than single precision holds
                d = gen.arakawa(rng, nj=rng.randint(2, 4), ni=rng.randint(2, 4), invalid=False, thirds=True)
            elif fam == 'cf2d_lon_T':
                # a square curvilinear grid without stored bounds whose longitude is stored (x, y) next to a latitude stored (y, x)
                n_ = rng.randint(3, 4)
                d = gen.cf2d(rng, ny=n_, nx=n_, bounds=False, holes='none', invalid=False, lon_transposed=True)
            elif fam == 'ugrid_nan_node':
                # a mesh with one more node than its faces use, whose coordinates are missing (a placeholder row)
                d = gen.ugrid(rng, w=3, h=2, invalid=False, placeholder_node=True)
            elif fam == 'cf1d_refused_bounds':
                # bounds stored with the pair dimension first: the convention warns and derives the cells from the centres
                d = gen.cf1d(rng, ny=rng.randint(3, 5), nx=rng.randint(3, 5), bounds=True, bad_bounds='transposed')
            elif fam == 'ugrid_square_T':
                # as many faces as nodes per face, the table stored with the faces along its second dimension
                if rng.random() < 0.5:
                    nodes = [(0, 0), (8, 0), (8, 8), (0, 8), (16, 4)]
                    faces = [[0, 1, 2], [0, 2, 3], [1, 4, 2]]
                    rng.shuffle(faces)
                    faces = [f[k:] + f[:k] for f, k in ((f, rng.randrange(3)) for f in faces)]
                    mesh = (nodes, faces)
                else:
                    mesh = gen.lattice_mesh(rng, 2, 2, variety=False, drop=False)
                d = gen.ugrid(rng, mesh=mesh, invalid=False, transposed=True, supplied=set(), edge_dim_declared=False)
            elif fam == 'ugrid_concave':
                # an L-shaped (concave) six-sided face next to a quadrilateral
                # (away from 0E 0N: a coordinate of exactly zero moved by a hair is no longer "the same to six decimals")
                nodes = [(40 + x, 24 + y) for x, y in [(0, 0), (16, 0), (16, 8), (8, 8), (8, 16), (0, 16), (24, 0), (24, 8)]]
                faces = [[0, 1, 2, 3, 4, 5], [1, 6, 7, 2]]
                k_ = rng.randrange(6)
                faces[0] = faces[0][k_:] + faces[0][:k_]
                if rng.random() < 0.5:
                    faces.reverse()
                d = gen.ugrid(rng, mesh=(nodes, faces), invalid=False)
            elif fam == 'ugrid_big_faces':
                # a ten-sided face next to a triangle and a quadrilateral
                nodes = [(0, 24), (16, 8), (40, 0), (64, 8), (80, 24), (80, 48), (64, 64), (40, 72), (16, 64), (0, 48),
                         (104, 32), (-24, 48), (-24, 24)]
                faces = [list(range(10)), [4, 10, 5], [9, 11, 12, 0]]
                if rng.random() < 0.5:
                    faces[0] = faces[0][3:] + faces[0][:3]
                rng.shuffle(faces)
                d = gen.ugrid(rng, mesh=(nodes, faces), invalid=False)
            elif fam == 'ugrid_edge_faces_only':
                # the edges are known only through an edge_face table: no edge_dimension attribute, no edge_node table
                d = gen.ugrid(rng, w=3, h=2, invalid=False, supplied={'edge_face'}, edge_dim_declared=False, transposed=False)
            else:
                d = gen.any_dataset(rng, fam, **(dataset_kw or {}).get(fam, {}))
            guards.append(d)
            if prepare is not None:
                prepare(rng, d)
            history(ctx, d, observe, what, rng=rng, tmp=tmp, fresh_check=(rep == 0 and fam_pos in (1, len(families) - 1)))
            # one-based meshes are padded with 0 every other time (no element has that number), otherwise with -1
            fill = 0 if (' si=1 ' in d.spec.get('label', '') + ' ' and rep % 2 == 0) else -1
            count_ds = getattr(ctx, '_traits_files', 0)
            ctx._traits_files = count_ds + 1
            for name, ds, ref, whole in variants(rng, d, tmp, f'{ctx.pid}_{fam}_{count_ds}', fill=fill, **kw):
                case = {'dataset': d.spec['label'], 'held as': name, 'observed': what}
                ctx.case((d.spec['label'], name, what), True)
                ctx.count(f'held as:{name.split(" (")[0]}')
                count += 1
                with warnings.catch_warnings():
                    warnings.simplefilter('ignore')
                    try:
                        if whole is not None:
                            (prime or observe)(whole)
                        want = observe(ref)
                    except Exception as e:      # noqa: BLE001
                        ctx.count(f'reference not observable ({type(e).__name__}): skipped')
                        continue
                    try:
                        got = observe(ds)
                    except Exception as e:      # noqa: BLE001
                        import traceback
                        where = ' <- '.join(f'{fr.name}:{fr.lineno}' for fr in traceback.extract_tb(e.__traceback__)[-3:])
                        ctx.report('property', f'{what}: fails for a dataset {name} ({type(e).__name__}: {str(e)[:160]} | {where}) although '
                                   f'the same content held plainly in memory is answered', case)
                        continue
                if not same(got, want):
                    ctx.report('property', f'{what}: a dataset {name} is answered differently from the same content held plainly in '
                               f'memory - {first_difference(got, want)}', case)
                    continue
                # asked a second time the answer is the same (nothing was consumed or rewritten by the first question)
                with warnings.catch_warnings():
                    warnings.simplefilter('ignore')
                    try:
                        again = observe(ds)
                    except Exception as e:      # noqa: BLE001
                        ctx.report('property', f'{what}: the second question to a dataset {name} fails ({type(e).__name__}: {str(e)[:120]})', case)
                        continue
                if not same(again, want):
                    ctx.report('property', f'{what}: asked a second time, a dataset {name} is answered differently - '
                               f'{first_difference(again, want)}', case)
    model_guard(ctx, guards, what)
    return count


def snapshot_of(ds):
    return {'data': ds.copy(deep=True),
            'attrs': {str(v): repr(sorted((str(k), repr(x)) for k, x in ds[v].attrs.items())) for v in ds.variables},
            'encoding': {str(v): repr(sorted((str(k), repr(x)) for k, x in ds[v].encoding.items())) for v in ds.variables},
            'global': repr(sorted((str(k), repr(x)) for k, x in ds.attrs.items()))}


def changed_since(ds, snap):
    if not ds.identical(snap['data']):
        return 'its variables, coordinates or attributes differ'
    if list(map(str, ds.variables)) != list(map(str, snap['data'].variables)):
        return 'the order of its variables changed'
    for v in ds.variables:
        if repr(sorted((str(k), repr(x)) for k, x in ds[v].encoding.items())) != snap['encoding'][str(v)]:
            return f'the encoding of {v} changed'
    return None


def fresh_interpreter_observation(ds, observer_name, tmp):
    """what a fresh interpreter, which has seen nothing else, answers for this dataset (pickled over)"""
    import json
    import pickle
    import subprocess
    import sys
    import tempfile
    fd, path = tempfile.mkstemp(prefix='fresh_', suffix='.pkl', dir=tmp)
    os.close(fd)
    with open(path, 'wb') as f:
        pickle.dump(ds, f)
    code = ('import sys, json, pickle, warnings\n'
            'warnings.simplefilter("ignore")\n'
            'import dask\n'
            'dask.config.set(scheduler="synchronous")\n'
            'import traits\n'
            f'ds = pickle.load(open({path!r}, "rb"))\n'
            f'print("OBS" + json.dumps(traits.jsonable(getattr(traits, {observer_name!r})(ds))))\n')
    env = dict(os.environ)
    r = subprocess.run([sys.executable, '-W', 'ignore', '-c', code], capture_output=True, text=True, env=env, timeout=300)
    os.remove(path)
    line = next((ln for ln in r.stdout.splitlines() if ln.startswith('OBS')), None)
    if line is None:
        raise RuntimeError('fresh interpreter failed: ' + r.stderr[-300:])
    return json.loads(line[3:])


def jsonable(x):
    if isinstance(x, dict):
        return {str(k): jsonable(v) for k, v in x.items()}
    if isinstance(x, (list, tuple)):
        return [jsonable(v) for v in x]
    if isinstance(x, (numpy.integer,)):
        return int(x)
    if isinstance(x, (numpy.floating,)):
        return float(x)
    if isinstance(x, numpy.bool_):
        return bool(x)
    return x


def through_json(x):
    import json
    return json.loads(json.dumps(jsonable(x)))


def battery(ds):
    """other questions a user may ask of the same dataset first - also ones that are refused - and what he may do with the
    answers (they are his: he may edit them)"""
    e = ds.ems
    with warnings.catch_warnings():
        warnings.simplefilter('ignore')
        t0 = getattr(e, 'topology', None)
        for name in ('face_face_array', 'face_edge_array', 'edge_face_array', 'edge_node_array'):
            try:
                getattr(t0, name)       # neighbour tables asked for before anything needed the face-node table
            except Exception:       # noqa: BLE001
                pass
    with warnings.catch_warnings():
        warnings.simplefilter('error')
        try:
            e.polygons          # a session that turns warnings into errors: the first attempt may fail
        except Exception:       # noqa: BLE001
            pass
    with warnings.catch_warnings():
        warnings.simplefilter('ignore')
        default = getattr(e, 'default_grid_kind', None)
        # (the default kind first, the other kinds after it, in a fixed order: grid_kinds is a set)
        for kind in sorted(e.grid_kinds, key=lambda k_: (k_ != default, str(k_))):
            for k in sorted(set(range(min(int(e.grid_size[kind]), 12))) | {int(e.grid_size[kind]) - 1}):
                try:
                    e.ravel_index(e.wind_index(k, grid_kind=kind))
                except Exception:       # noqa: BLE001
                    pass
        for bad in (lambda: e.wind_index(10 ** 9), lambda: e.ravel_index(('no such kind', 0)), lambda: e.select_index(('edge', 10 ** 6)),
                    lambda: e.get_index_for_point(__import__('shapely').Point(1e6, 1e6))):
            try:
                bad()
            except Exception:       # noqa: BLE001
                pass
        gs = e.grid_size
        if isinstance(gs, dict):
            for k in list(gs):
                gs[k] = 0           # the caller's own copy of the answer, scribbled on
        sh = getattr(e, 'grid_shape', None)
        if isinstance(sh, dict):
            for k in list(sh):
                sh[k] = ()
        t = getattr(e, 'topology', None)
        for name in ('face_face_array', 'face_edge_array', 'edge_face_array', 'edge_node_array', 'face_node_array'):
            try:
                getattr(t, name)
            except Exception:       # noqa: BLE001
                pass
        try:
            e.face_centres
            e.strtree
            e.bounds
            list(e.depth_coordinates)
        except Exception:       # noqa: BLE001
            pass


def history(ctx, d, observe, what, rng=None, tmp=None, fresh_check=False):
    """the answer for a dataset is the same the second time, after other questions (some refused) were asked of it, after
    other datasets - of the same shape and names, of another shape, a hair apart - were processed in between, and after its
    data were edited in place it is the answer for the edited dataset; asking leaves the dataset as it was.  What is
    compared with: a fresh copy, and (the first dataset of each check) a fresh interpreter that has seen nothing else."""
    base = d.ds
    case = {'dataset': d.spec['label'], 'observed': what, 'history': None}
    ctx.case((d.spec['label'], 'history', what), True)
    ctx.count('history:again / after other questions / after other datasets / after an edit / input unchanged')
    with warnings.catch_warnings():
        warnings.simplefilter('ignore')
        try:
            snap = snapshot_of(base)
            fresh = observe(snap['data'].copy(deep=True))
        except Exception as e:      # noqa: BLE001
            ctx.count(f'reference not observable ({type(e).__name__}): skipped')
            return
        geometry_names = {str(x) for x in base.ems.get_all_geometry_names()}
        for nm in base.variables:
            b = base[nm].attrs.get('bounds')
            if b:
                geometry_names.add(str(b))
        other = reverse_data(gen.shift_coordinates(base, dlon=1.0), geometry_names)
        other.encoding = {}
        near = gen.shift_coordinates(base, dlon=2.0 ** -26, dlat=2.0 ** -26)        # the same model a hair (1.5e-8 degrees) away
        near.encoding = {}
        steps = []
        try:
            steps.append(('the first time', observe(base)))
            steps.append(('the second time on the same object', observe(base)))
            o_other = observe(other)
            steps.append(('again after a dataset of the same shape and names (moved one degree east, data reversed) was processed', observe(base)))
            ref_other = observe(other.copy(deep=True))
            o_near = observe(near)
            asked = snap['data'].copy(deep=True)
            battery(asked)
            steps.append(('after other questions, some of them refused, were asked of the same object first', observe(asked)))
        except Exception as e:      # noqa: BLE001
            import traceback
            where = ' <- '.join(f'{fr.name}:{fr.lineno}' for fr in traceback.extract_tb(e.__traceback__)[-3:])
            ctx.report('property', f'{what}: fails in a sequence of calls ({type(e).__name__}: {str(e)[:160]} | {where}) although a fresh copy of '
                       f'the dataset is answered', case)
            return
    for when, got in steps:
        if not same(got, fresh):
            ctx.report('property', f'{what}: asked {when}, the dataset is answered differently from a fresh copy of it - '
                       f'{first_difference(got, fresh)}', dict(case, history=when))
            return
    if not same(o_other, ref_other):
        ctx.report('property', f'{what}: a dataset processed after another one of the same shape and names is answered differently from a '
                   f'fresh copy of it - {first_difference(o_other, ref_other)}', dict(case, history='second dataset'))
        return
    ch = changed_since(base, snap)
    if ch:
        ctx.report('property', f'{what}: asking modified the dataset that was asked about: {ch}', dict(case, history='input unchanged'))
        return
    # ---- data edited in place between two questions: the second answer is for the dataset as it now is
    with warnings.catch_warnings():
        warnings.simplefilter('ignore')
        edited = snap['data'].copy(deep=True)
        try:
            observe(edited)
            changed_any = False
            for v in list(edited.data_vars):
                a = edited[v]
                if str(v) in geometry_names or a.attrs.get('cf_role') or a.dtype.kind != 'f' or a.ndim == 0 or str(v) == 'Mesh2':
                    continue
                edited[v] = a + 100.0          # a new array under the same name (unit conversion, bias correction)
                changed_any = True
            if changed_any:
                got = observe(edited)
                want = observe(edited.copy(deep=True))
                if not same(got, want):
                    ctx.report('property', f'{what}: after the data variables of the dataset were replaced in place (+100) the same object is '
                               f'still answered for the old data - {first_difference(got, want)}', dict(case, history='edited in place'))
                    return
        except Exception as e:      # noqa: BLE001
            ctx.report('property', f'{what}: fails after an in-place edit of the data ({type(e).__name__}: {str(e)[:160]})', dict(case, history='edited in place'))
            return
    # ---- a fresh interpreter that has seen nothing else (once per check: it costs an interpreter start) - for this dataset after
    # a dataset of another shape, and for its near twin
    if rng is not None and tmp is not None and fresh_check:
        name = observe.__name__
        ctx.count('history:compared with a fresh interpreter')
        with warnings.catch_warnings():
            warnings.simplefilter('ignore')
            try:
                truth = fresh_interpreter_observation(snap['data'], name, tmp)
                truth_near = fresh_interpreter_observation(near.copy(deep=True), name, tmp)
            except Exception as e:      # noqa: BLE001
                ctx.count(f'fresh interpreter not available ({type(e).__name__})')
                return
        if not same(through_json(fresh), truth):
            ctx.report('property', f'{what}: in this session (other datasets were processed before) the dataset is answered differently than in a '
                       f'fresh interpreter - {first_difference(through_json(fresh), truth)}', dict(case, history='fresh interpreter'))
        elif not same(through_json(o_near), truth_near):
            ctx.report('property', f'{what}: the same model moved by 2^-26 of a degree, processed after the original, is answered differently than '
                       f'in a fresh interpreter - {first_difference(through_json(o_near), truth_near)}', dict(case, history='near twin'))


def model_guard(ctx, datasets, what):
    """the cells every answer above rests on are the cells the coordinates describe (model Polygons, as in C06): a change that
    moves the cells of plain and unusual holders alike cannot hide behind their agreement"""
    import polymodel as pm
    from coqio import coq_eval_sharded
    from props.c06 import same_ring
    exprs = [f'(option_map (fun r => show_polys (finalize r)) {pm.raw_expr(d)})' for d in datasets]
    res = coq_eval_sharded(['Model.Polygons'], exprs, shard=8, workers=4)
    ctx.leg('cells against the coordinate model', len(exprs))
    for d, mres in zip(datasets, res):
        if mres is None:
            continue
        m_polys = pm.model_polygons_to_float(mres.v)
        case = {'dataset': d.spec['label'], 'observed': what, 'guard': 'cells the coordinates describe'}
        with warnings.catch_warnings():
            warnings.simplefilter('ignore')
            try:
                i_polys = pm.impl_polygons(d.ds.ems)
            except Exception as e:     # noqa: BLE001
                ctx.report('property', f'{what}: the cells of the dataset cannot be built ({type(e).__name__}: {str(e)[:120]})', case)
                continue
        if len(i_polys) != len(m_polys):
            ctx.report('property', f'{what} rests on {len(i_polys)} cells, the coordinates describe {len(m_polys)}', case)
            continue
        for n, (ip, mp) in enumerate(zip(i_polys, m_polys)):
            if not same_ring(ip, mp):
                ctx.report('property', f'{what} rests on cells that are not the cells the coordinates describe: cell {n} is {ip}, the '
                           f'coordinates give {mp}', dict(case, cell=n))
                break


# ---- observations shared by several properties

def rings_of(ems):
    import shapely
    out = []
    for p in ems.polygons:
        if p is None:
            out.append(None)
        elif not isinstance(p, shapely.Polygon):
            out.append(('not a polygon', p.geom_type))
        else:
            out.append([(float(x), float(y)) for x, y in shapely.get_coordinates(p.exterior)[:-1]])
    return out


def probe_points(ems, n=12):
    """points of the model's bounding box on a lattice (the same for every holder of the same content)"""
    import shapely
    b = [float(v) for v in ems.bounds]
    pts = []
    for k in range(n):
        fx = ((k * 7) % n + 0.5) / n
        fy = ((k * 5) % n + 0.37) / n
        pts.append(shapely.Point(b[0] + fx * (b[2] - b[0]), b[1] + fy * (b[3] - b[1])))
    return pts


def plain(x):
    """numpy / xarray values as nested lists of python numbers"""
    a = numpy.asarray(x)
    if a.dtype.kind == 'M':
        a = a.astype('datetime64[ns]').astype('i8')
    elif a.dtype.kind == 'm':
        a = a.astype('timedelta64[ns]').astype('i8')
    if a.dtype.kind in 'iub':
        return a.astype('i8').tolist()
    if a.dtype.kind == 'f':
        return a.astype('f8').tolist()
    return [str(v) for v in a.reshape(-1)]


def bylabel(a):
    """values under their dimension names: the order in which a result lists its dimensions is not part of any property"""
    dims = sorted(str(x) for x in a.dims)
    return (dims, plain(a.transpose(*dims).values))


def with_data(rng, d):
    gen.add_data_vars(rng, d.ds, d.spec['kinds'], n_extra_max=1, names_prefix='tv')


def data_names(ds):
    return sorted(str(v) for v in ds.data_vars if str(v).startswith('tv_'))


def canon_index(ix):
    return [getattr(x, 'value', x) if not isinstance(x, (int, numpy.integer)) else int(x) for x in (ix if isinstance(ix, tuple) else (ix,))]


def obs_index(ds):
    e = ds.ems
    out = {}
    for kind in e.grid_kinds:
        size = int(e.grid_size[kind])
        rows = []
        for k in list(range(min(size, 30))) + [size - 1]:
            ix = e.wind_index(k, grid_kind=kind)
            rows.append((k, canon_index(ix), int(e.ravel_index(ix))))
        out[str(getattr(kind, 'value', kind))] = {'size': size, 'rows': rows}
    return out


def obs_geometry(ds):
    e = ds.ems
    pts = probe_points(e)
    hits = []
    for p in pts:
        r = e.get_index_for_point(p)
        hits.append(None if r is None else int(r.linear_index))
    import shapely
    b = [float(v) for v in e.bounds]           # (plain floats: the arithmetic below must not depend on the type the bounds come in)
    q = shapely.box(*b).buffer(-0.2 * min(b[2] - b[0], b[3] - b[1]))
    tree = sorted(int(x) for x in e.strtree.query(q, predicate='intersects')) if not q.is_empty else []
    return {'class': type(e).__name__, 'polygons': rings_of(e), 'centres': plain(e.face_centres), 'lookups': hits, 'tree': tree,
            'bounds': [float(v) for v in e.bounds], 'mask': plain(e.mask)}


def obs_topology(ds):
    out = obs_geometry(ds)
    t = ds.ems.topology
    rows = lambda a: [[None if m else int(v) for v, m in zip(numpy.ma.getdata(r).tolist(), numpy.ma.getmaskarray(r).tolist())] for r in numpy.ma.asarray(a)]      # noqa: E731
    out['face_node'] = rows(t.face_node_array)
    out['counts'] = [int(t.node_count), int(t.face_count), int(t.edge_count) if t.has_edge_dimension else None]
    if t.has_edge_dimension:
        en = rows(t.edge_node_array)
        out['edges'] = sorted(tuple(sorted(x for x in r if x is not None)) for r in en)
    return out


def obs_flatten(ds):
    e = ds.ems
    out = {}
    for nm in data_names(ds):
        r = e.ravel(ds[nm])
        w = e.wind(r, grid_kind=e.get_grid_kind(ds[nm]))
        out[nm] = {'ravel_dims': [str(x) for x in r.dims], 'ravel': plain(r.values), 'wind_dims': [str(x) for x in w.dims],
                   'wind': plain(w.values), 'dtype': str(numpy.asarray(r.values).dtype.kind)}
    return out


def obs_select(ds):
    e = ds.ems
    out = []
    for p in probe_points(e, 8):
        r = e.get_index_for_point(p)
        if r is None:
            out.append(None)
            continue
        sel = e.select_point(p)
        out.append({str(v): bylabel(sel[v]) for v in sorted(map(str, sel.data_vars))})
        # geometry variables do not come along with a selection, whatever they are held as
        gnames = {str(x) for x in e.get_all_geometry_names()} | {str(ds[v].attrs['bounds']) for v in ds.variables if 'bounds' in ds[v].attrs
                                                                   and str(v) in {str(x) for x in e.get_all_geometry_names()}}
        out.append(sorted(set(map(str, sel.variables)) & gnames))
    first = next((p for p in probe_points(e, 8) if e.get_index_for_point(p) is not None), None)
    if first is not None:
        many = e.select_points([first, first])
        out.append({str(v): bylabel(many[v]) for v in sorted(map(str, many.data_vars))})
    return out


def obs_clip_mask(ds):
    import shapely
    e = ds.ems
    b = [float(v) for v in e.bounds]
    g = shapely.box(b[0] - 1, b[1] - 1, (b[0] + b[2]) / 2 + 0.01, (b[1] + b[3]) / 2 + 0.01)
    out = {}
    for buffer in (0, 1):
        m = e.make_clip_mask(g, buffer)
        out[buffer] = {str(v): ([str(x) for x in m[v].dims], plain(m[v].values)) for v in sorted(map(str, m.data_vars))}
    return out


def obs_detect(ds):
    from emsarray.conventions import get_dataset_convention
    c = get_dataset_convention(ds)
    return {'detected': None if c is None else c.__name__, 'bound': type(ds.ems).__name__}


def obs_triangulate(ds):
    from emsarray.operations.triangulate import triangulate_dataset
    v, t, c = triangulate_dataset(ds)
    verts = [tuple(float(x) for x in row) for row in numpy.asarray(v).reshape(-1, 2)]
    tris = sorted((int(cell), tuple(sorted(verts[int(i)] for i in tri))) for tri, cell in zip(numpy.asarray(t).reshape(-1, 3), numpy.asarray(c).reshape(-1)))
    return [list(x) for x in tris]


def obs_export(ds):
    import io
    import json as _json
    import tempfile
    from emsarray.operations import geometry
    with tempfile.TemporaryDirectory(dir=os.environ.get('VERIF_WORK', '/verif/work')) as t:
        geometry.write_wkt(ds, os.path.join(t, 'a.wkt'))
        geometry.write_geojson(ds, os.path.join(t, 'a.geojson'))
        feats = _json.load(open(os.path.join(t, 'a.geojson')))['features']
        return {'wkt': open(os.path.join(t, 'a.wkt')).read(),
                'geojson': [(f['properties']['linear_index'], f['properties']['index'], f['geometry']['coordinates']) for f in feats]}


def obs_plot(ds):
    import matplotlib
    matplotlib.use('Agg')
    e = ds.ems
    out = {}
    for nm in data_names(ds):
        a = ds[nm]
        kind = e.get_grid_kind(a)
        if kind != e.default_grid_kind:
            continue
        extra = [x for x in a.dims if x not in e.grid_dimensions[kind]]
        a0 = a.isel({x: 0 for x in extra})
        pc = e.make_poly_collection(a0)
        out[nm] = {'values': plain(pc.get_array()), 'clim': [float(x) for x in pc.get_clim()],
                   'first_path': plain(pc.get_paths()[0].vertices) if len(pc.get_paths()) else None, 'patches': len(pc.get_paths())}
    return out


def with_depth(rng, d, **kw):
    nm1, _ = gen.DEPTH_NAMES.get(d.family, (None, None))
    if 'name_is_dim' in kw:
        kw.pop('name_is_dim')
        nm1 = nm1 or 'k'
    ds, sp = gen.add_depth(rng, d.ds, dim='k', name=nm1, second=False, positive='attr', **kw)
    gd = list(d.spec['kinds']['face'])
    shape = [sp['n']] + [ds.sizes[g] for g in gd]
    vals = (numpy.arange(int(numpy.prod(shape)), dtype='f8') + 1).reshape(shape)
    # a sea floor that differs from column to column: column c is wet in its first 1 + c mod n physical layers
    ncol = int(numpy.prod(shape[1:]))
    wet = (numpy.arange(ncol) % sp['n'] + 1).reshape(shape[1:])
    lev = numpy.arange(sp['n']).reshape([sp['n']] + [1] * len(gd))
    phys = (sp['n'] - 1 - lev) if sp['deep_first'] else lev
    vals = numpy.where(phys < wet, vals, numpy.nan)
    ds['tv_depthfield'] = xarray.DataArray(vals, dims=['k'] + gd)
    tname = gen.TIME_NAMES.get(d.family, 'time')
    tda = xarray.DataArray(numpy.array(['1990-01-01T00:00', '1990-01-02T12:00'], dtype='datetime64[ns]'), dims=['record'],
                           attrs={'standard_name': 'time', 'coordinate_type': 'time'})
    tda.encoding['units'] = 'days since 1990-01-01 00:00:00 +10'
    ds = ds.assign_coords({tname: tda})
    d.ds = ds
    d.spec['depth_spec'] = sp


def obs_floor(ds):
    from emsarray.operations import depth as depth_ops
    out = depth_ops.ocean_floor(ds, [c.name for c in ds.ems.depth_coordinates])
    try:
        acc = ds.ems.ocean_floor()          # the accessor's spelling of the same question
        via = {str(v): bylabel(acc[v]) for v in sorted(map(str, acc.data_vars)) if str(v).startswith('tv_')}
    except KeyError:
        via = None
    if via is not None:
        return {'function': {str(v): bylabel(out[v]) for v in sorted(map(str, out.data_vars)) if str(v).startswith('tv_')}, 'accessor': via}
    return {str(v): bylabel(out[v]) for v in sorted(map(str, out.data_vars)) if str(v).startswith('tv_')}


def with_depth_bounds(rng, d):
    # the depth coordinate is the dimension coordinate where the convention leaves the name free, and it has bounds
    with_depth(rng, d, bounds=True, name_is_dim=True)


def obs_normalize(ds):
    res = {}
    for pd, dts in ((True, True), (False, False), (None, True)):
        out = ds.ems.normalize_depth_variables(positive_down=pd, deep_to_shallow=dts)
        res[str((pd, dts))] = {str(c.name): (plain(out[c.name].values), out[c.name].attrs.get('positive')) for c in ds.ems.depth_coordinates}
        res[str((pd, dts))]['field'] = plain(out['tv_depthfield'].values)
        # the bounds go with their coordinate, wherever the file's reader left their name (attribute or encoding)
        for c in ds.ems.depth_coordinates:
            b = c.attrs.get('bounds', c.encoding.get('bounds'))
            if b is not None and b in out.variables:
                res[str((pd, dts))][f'bounds of {c.name}'] = plain(out[b].values)
    return res


def obs_transect(ds):
    import shapely
    import props.c18 as c18
    e = ds.ems
    b = [float(v) for v in e.bounds]
    line = shapely.LineString([(b[0] - 0.5, b[1] + 0.37 * (b[3] - b[1])), ((b[0] + b[2]) / 2, b[1] + 0.61 * (b[3] - b[1])), (b[2] + 0.5, b[3] + 0.25)])
    depth = ds.ems.depth_coordinate.name
    t = c18.transect_mod.Transect(ds, line, depth=depth)
    segs = [(int(s1.linear_index), canon_index(e.wind_index(int(s1.linear_index))), [float(x) for pt in s1.intersection.coords for x in pt[:2]])
            for s1 in t.segments]
    prep = t.prepare_data_array_for_transect(ds['tv_depthfield'])
    return {'segments': segs, 'prepared_dims': [str(x) for x in prep.dims], 'prepared': plain(prep.values)}


RUNS = {
    'C01': (obs_index, 'index conversion', gen.FAMILIES + ['ugrid_edges', 'ugrid_edge_faces_only', 'ugrid_nan_node'], None, ('lazy', 'raw', 'view_of_file', 'big_endian', 'narrow_tables')),
    'C02': (obs_geometry, 'polygons, centres, lookups and spatial index', gen.FAMILIES + ['cf1d_int', 'ugrid_quads1', 'ugrid_square_T', 'ugrid_big_faces', 'cf1d_refused_bounds', 'cf2d_river'], with_data, ('lazy', 'raw', 'view_of_file', 'big_endian', 'transposed_view', 'mixed_precision')),
    'C03': (obs_flatten, 'flatten and wind', gen.FAMILIES, with_data, None),
    'C04': (obs_geometry, 'polygons and point lookups', gen.FAMILIES + ['cf1d_desc', 'ugrid_quads1', 'cf2d_river', 'ugrid_big_faces', 'cf1d_refused_bounds', 'ugrid_square_T', 'cf1d_int', 'cf2d_lon_T'], None, ('lazy', 'raw', 'view_of_file', 'big_endian', 'mixed_precision')),
    'C05': (obs_select, 'point selection', gen.FAMILIES + ['ugrid_quads1'], with_data, None),
    'C06': (obs_geometry, 'polygons, bounds and mask', gen.FAMILIES + ['cf1d_desc', 'cf1d_int', 'cf1d_bounds', 'ugrid_quads1', 'ugrid_big_faces', 'cf1d_refused_bounds', 'ugrid_square_T', 'shoc_standard_thirds', 'cf2d_river'], None, ('lazy', 'raw', 'view_of_file', 'big_endian', 'mixed_precision', 'raw_unsigned')),
    'C07': (obs_clip_mask, 'clip masks', gen.FAMILIES + ['shoc_standard_thirds', 'cf2d_lon_T', 'cf1d_int', 'cf2d_river'], None, ('lazy', 'raw', 'view_of_file', 'big_endian')),
    'C10': (obs_topology, 'mesh tables and polygons', ['ugrid', 'ugrid_edges', 'ugrid', 'ugrid_square_T', 'ugrid_big_faces', 'ugrid_edge_faces_only'], None, ('lazy', 'raw', 'view_of_file', 'big_endian', 'narrow_tables', 'mixed_precision', 'raw_unsigned')),
    'C11': (obs_detect, 'convention detection', gen.FAMILIES, None, ('lazy', 'raw', 'view_of_file', 'big_endian')),
    'C12': (obs_floor, 'ocean floor', ['cf1d', 'cf2d', 'shoc_standard', 'ugrid'], with_depth, ('lazy', 'raw', 'view_of_file', 'big_endian', 'transposed_view')),
    'C13': (obs_normalize, 'depth normalisation', ['cf1d', 'shoc_simple', 'ugrid'], with_depth_bounds, ('lazy', 'raw', 'view_of_file', 'big_endian')),
    'C14': (obs_triangulate, 'triangulation', gen.FAMILIES + ['ugrid_quads1', 'ugrid_big_faces', 'cf1d_int', 'cf2d_lon_T', 'cf2d_river', 'ugrid_concave'], None, ('lazy', 'raw', 'view_of_file', 'big_endian', 'mixed_precision')),
    'C15': (obs_export, 'geometry export', gen.FAMILIES + ['cf1d_desc', 'cf1d_bounds', 'ugrid_quads1', 'ugrid_big_faces', 'cf1d_int', 'cf2d_lon_T', 'cf2d_river'], None, ('lazy', 'raw', 'view_of_file', 'big_endian', 'mixed_precision')),
    'C18': (obs_transect, 'transect pieces and prepared data', ['cf1d', 'cf2d', 'ugrid'], with_depth, ('lazy', 'view_of_file', 'big_endian', 'transposed_view')),
    'C19': (obs_plot, 'polygon collection', gen.FAMILIES + ['ugrid_quads1', 'cf1d_int', 'cf2d_lon_T', 'cf2d_river'], with_data, None),
}


def run_for(ctx, n_per_family=1):
    """the leg of this module for the property ctx.pid"""
    import shutil
    import tempfile
    if ctx.pid not in RUNS:
        return
    observe, what, families, prepare, which = RUNS[ctx.pid]
    which = tuple(which or ('lazy', 'raw', 'view_of_file', 'big_endian', 'transposed_view'))
    if ctx.pid != 'C11':
        # (detection is not asked of a dataset whose convention was made explicitly)
        which += ('explicit_options',)
    tmp = tempfile.mkdtemp(prefix=f'{ctx.pid.lower()}_traits_', dir=os.environ.get('VERIF_WORK', '/verif/work'))
    try:
        kw = {'invalid': False}
        n = leg(ctx, ctx.rng, tmp, observe, what, families, which=which, n_per_family=n_per_family, prepare=prepare,
                dataset_kw={f: dict(kw) for f in families if f != 'cf1d'})
        ctx.leg('same content held in less common ways', n)
    finally:
        shutil.rmtree(tmp, ignore_errors=True)
